package main

import (
	"fmt"
	"go/ast"
	"go/token"
	"go/types"
	"os"
	"sort"
	"strings"

	"golang.org/x/tools/go/packages"
	"golang.org/x/tools/go/ssa"
)

// Program is the loaded view of /repo's working tree: typed syntax of the root
// packages, an SSA program in which the roots have bodies and every
// dependency is present with types only (from export data).
type Program struct {
	Fset  *token.FileSet
	Pkgs  []*packages.Package
	SSA   *ssa.Program
	Roots map[string]*ssa.Package // import path -> package with bodies
	ByTyp map[*types.Package]*ssa.Package
	// all types.Packages by path (roots + transitive imports)
	TPkgs map[string]*types.Package
	// contract comment lines found in the roots' files (only files named verif_contracts*.go)
	ContractFiles map[string][]string // import path -> file paths
	// packages whose scope is completely known: the roots (type-checked from source) and their direct imports (whole
	// export data read). Packages reached only indirectly are stubs holding just the objects some export data mentions.
	Complete map[string]bool
}

func loadProgram(repo string, patterns []string, overlay map[string][]byte) (*Program, error) {
	fset := token.NewFileSet()
	cfg := &packages.Config{
		Mode: packages.NeedName | packages.NeedFiles | packages.NeedCompiledGoFiles |
			packages.NeedSyntax | packages.NeedTypes | packages.NeedTypesInfo | packages.NeedTypesSizes | packages.NeedModule,
		Dir:        repo,
		Fset:       fset,
		BuildFlags: []string{"-tags=verif"},
		Env: append(os.Environ(), "GOFLAGS=-mod=mod", "GOPROXY=off", "GOSUMDB=off", "GOTOOLCHAIN=local",
			"CGO_ENABLED=1"),
		Overlay: overlay,
	}
	pkgs, err := packages.Load(cfg, patterns...)
	if err != nil {
		return nil, err
	}
	var errs []string
	for _, p := range pkgs {
		for _, e := range p.Errors {
			errs = append(errs, p.PkgPath+": "+e.Error())
		}
		if p.Types == nil || p.TypesInfo == nil {
			errs = append(errs, p.PkgPath+": no type information")
		}
	}
	if len(errs) > 0 {
		return nil, fmt.Errorf("load errors:\n  %s", strings.Join(errs, "\n  "))
	}
	sort.Slice(pkgs, func(i, j int) bool { return pkgs[i].PkgPath < pkgs[j].PkgPath })

	prog := ssa.NewProgram(fset, ssa.GlobalDebug|ssa.InstantiateGenerics)
	P := &Program{Fset: fset, Pkgs: pkgs, SSA: prog, Roots: map[string]*ssa.Package{},
		ByTyp: map[*types.Package]*ssa.Package{}, TPkgs: map[string]*types.Package{}, ContractFiles: map[string][]string{}}

	rootTypes := map[*types.Package]*packages.Package{}
	P.Complete = map[string]bool{}
	for _, p := range pkgs {
		rootTypes[p.Types] = p
		P.Complete[p.Types.Path()] = true
		for _, imp := range p.Types.Imports() {
			P.Complete[imp.Path()] = true
		}
	}
	// dependencies: types only
	seen := map[*types.Package]bool{}
	var walk func(tp *types.Package)
	walk = func(tp *types.Package) {
		if seen[tp] {
			return
		}
		seen[tp] = true
		P.TPkgs[tp.Path()] = tp
		for _, imp := range tp.Imports() {
			walk(imp)
		}
		if _, isRoot := rootTypes[tp]; !isRoot {
			P.ByTyp[tp] = prog.CreatePackage(tp, nil, nil, true)
		}
	}
	for _, p := range pkgs {
		walk(p.Types)
	}
	for _, p := range pkgs {
		sp := prog.CreatePackage(p.Types, p.Syntax, p.TypesInfo, true)
		P.Roots[p.PkgPath] = sp
		P.ByTyp[p.Types] = sp
		for _, f := range p.CompiledGoFiles {
			base := f[strings.LastIndex(f, "/")+1:]
			if strings.HasPrefix(base, "verif_contracts") && strings.HasSuffix(base, ".go") {
				P.ContractFiles[p.PkgPath] = append(P.ContractFiles[p.PkgPath], f)
			}
		}
	}
	for _, p := range pkgs {
		P.Roots[p.PkgPath].Build()
	}
	return P, nil
}

// syntax lookup helpers

func (P *Program) pkgOf(path string) *packages.Package {
	for _, p := range P.Pkgs {
		if p.PkgPath == path {
			return p
		}
	}
	return nil
}

// funcDeclOf returns the syntax of fn if it is in a root package.
func funcDeclOf(fn *ssa.Function) *ast.FuncDecl {
	if fn == nil {
		return nil
	}
	if d, ok := fn.Syntax().(*ast.FuncDecl); ok {
		return d
	}
	return nil
}

// allFunctions enumerates every function with a body in the root packages,
// including methods and anonymous functions.
func (P *Program) allFunctions() []*ssa.Function {
	var out []*ssa.Function
	seen := map[*ssa.Function]bool{}
	var add func(f *ssa.Function)
	add = func(f *ssa.Function) {
		if f == nil || seen[f] || f.Blocks == nil {
			return
		}
		seen[f] = true
		out = append(out, f)
		for _, a := range f.AnonFuncs {
			add(a)
		}
	}
	for _, sp := range P.Roots {
		for _, m := range sp.Members {
			switch m := m.(type) {
			case *ssa.Function:
				add(m)
			case *ssa.Type:
				for _, T := range []types.Type{m.Type(), types.NewPointer(m.Type())} {
					ms := P.SSA.MethodSets.MethodSet(T)
					for i := 0; i < ms.Len(); i++ {
						f := P.SSA.MethodValue(ms.At(i))
						if f != nil && f.Pkg == sp && f.Synthetic == "" {
							add(f)
						}
					}
				}
			}
		}
	}
	sort.Slice(out, func(i, j int) bool { return out[i].String() < out[j].String() })
	return out
}
