package main

import (
	"fmt"
	"go/ast"
	goparser "go/parser"
	"go/token"
	"go/types"
	"os"
	"path/filepath"
	"regexp"
	"sort"
	"strconv"
	"strings"

	"golang.org/x/tools/go/ssa"
)

type Clause struct {
	Kind  string // requires, ensures, invariant, assert
	Label string
	Src   string
	E     Expr
	// Trusted: an ensures clause of a verified function that is assumed at call sites but NOT checked against the body
	// ("trusted ensures ..."): a summary of what other packages rely on, listed in the evidence as trusted
	Trusted bool
}

type LoopSpec struct {
	Ordinal    int
	Invariants []*Clause
	Decreases  Expr
	// FreshWrites ("fresh_writes" line in the loop block): every write of the loop body to a reference-indexed heap
	// component goes to an object allocated during the call. Each such write becomes an obligation
	// (loopN.fresh_write:<heap key>); in exchange the objects that existed at function entry keep their values across the
	// loop (the standard inductive argument: "no pre-existing object was written so far" is itself a loop invariant).
	FreshWrites bool
	// loop frame ("modifies" inside a loop block): only these targets are havocked at the loop header; every back edge
	// carries the obligation that nothing else (allocated before the iteration started) was changed by the body
	HasModifies bool
	Modifies    []Expr
	ModSrc      []string
	// Of ("loop N of F"): the N-th loop of function F as INLINED into the function of this contract (F has no callable
	// contract, so its body is encoded in place). The clauses are evaluated in the scope of the function of this contract
	// extended by the locals of the inlined frames (see Env.outer); Owner is the contract that carries the block.
	Of    string
	Owner *Contract
}

// CallSpec: per call-site annotations inside a function ("call F@1 invariant ...") – reserved.

type Contract struct {
	Key      string // (*types.Func).FullName()
	Aliases  []string
	File     string
	Line     int
	PkgPath  string // resolution context
	Imports  map[string]string
	SigSrc   string
	RecvName string
	Params   []string // declared parameter names (positional)
	Results  []string // declared result names ("" when unnamed)
	Requires []*Clause
	Ensures  []*Clause
	// frame
	HasModifies bool
	Modifies    []Expr
	ModSrc      []string
	ModWhen     []Expr // parallel to Modifies: nil = unconditional; else the target may be modified only when the condition (over the entry state) holds
	// HiddenMod ("hidden modifies targets"): the concrete state BEHIND an abstraction (see `representation`): part of
	// the function's own frame, but not a target callers see in their frames (callers reason over the represented ghost
	// variables only); at call sites the targets are havocked silently. Listed in the evidence as trusted.
	HiddenMod []Expr
	HiddenSrc []string
	// Rederives ("rederives"): at every normal return the ghost variables defined by `representation` declarations are
	// re-derived from the final state (fresh value + defining equation); ensures / frame are checked over them
	Rederives bool
	// TrustedRequires ("trusted requires expr"): assumed at the entry of the verified body, NOT imposed on callers
	// (an environment assumption such as "this keeper is the wired one"); listed in the evidence as trusted
	TrustedRequires []*Clause
	// panics: "" unspecified, "never", "only_if", "iff", "any"
	PanicMode     string
	PanicCond     Expr
	PanicSrc      string
	PanicLabel    string
	Pure          bool
	Deterministic bool
	DetLabel      string
	Assumed       bool
	NoInline      bool
	Loops         map[int]*LoopSpec
	// InlinedLoops: "loop N of F" blocks — invariants for loops of callees that are inlined into this function, keyed by
	// the callee name as written (matched against the short name of the inlined function or its part after the last dot)
	InlinedLoops map[string]map[int]*LoopSpec
	// CallAsserts: "at call F@n assert [label] expr" — assertions over the function's own locals, checked right before
	// the n-th (source order) call of F in this function; key "call:F@n"
	CallAsserts map[string][]*Clause
	// CallInvariants: "at call F@n invariant [label] expr" — invariant of the function value(s) the callee may run
	// (`modifies effects(f)`): holds before the call, is preserved by one run of f, holds after the call
	CallInvariants map[string][]*Clause
	callSeen       map[string]bool
	Props          map[string]bool // property ids mentioned by labels
	// StrongProps: property ids mentioned by labels of clauses OTHER than `deterministic` (functional clauses)
	StrongProps map[string]bool
	Obj         *types.Func
	recvExpr    ast.Expr
	funcName    string
	Sig         *types.Signature
	funcType    string // named func type for "functype" contracts
	// Alts: further assumed contracts of the same (interface) method, written by different work areas for different
	// dynamic types of an interface-typed parameter (each restricted by `requires typeof(p) == type(T)`); the call site
	// picks the one whose accepted types contain the statically known dynamic type of the argument (see pickAlt)
	Alts    []*Contract
	viaVar  bool // contract for calls through a package-level variable of function type (funcType = its name)
	closure bool // contract of an anonymous function (written Parent__N)
	// Uninterp: the body is never inlined nor verified; calls use the contract only
}

type GhostFunc struct {
	// Macro: the body is expanded at every use and evaluated in the state of the use site (so it may read the heap
	// and ghost variables, and old(M(..)) is M in the pre-state); parameters keep the Go types of the arguments
	Macro   bool
	Name    string
	Params  []QVar
	Ret     *TypeExpr
	Body    Expr
	File    string
	PkgPath string
	Imports map[string]string
}

type GhostVar struct {
	Name    string
	T       *TypeExpr
	PkgPath string
	Imports map[string]string
}

type Axiom struct {
	Name    string
	E       Expr
	// RepVar: for `representation name: forall xs :: g[xs] == expr` the ghost variable g that the declaration DEFINES
	// as a function of other state ("" for plain axioms). Asserted like an axiom at function entry; contracts marked
	// `rederives` re-derive g at their exits.
	RepVar string
	Src     string
	PkgPath string
	Imports map[string]string
	// Props: `axiom[C14,C16] name: expr` — a background-theory axiom that is part of the check of these properties only
	// (nil: every property). Keeps module-specific theories out of the proofs of unrelated properties.
	Props map[string]bool
}

type SpecDB struct {
	Contracts  map[string]*Contract
	Ghosts     map[string]*GhostFunc
	GhostVars  map[string]*GhostVar
	Axioms     []*Axiom
	Opaque     []opaqueDecl
	ZeroInit   map[string]*zeroInit // type string -> fact about a freshly allocated object ("this")
	zeroDecls  []zeroDecl
	Immutable  map[string]bool // type strings whose referents are never modified (refs are values)
	Handles    map[string]bool // type strings of opaque values that give access to mutable world state
	Allocators map[string]bool // ghost vars that only grow (see `allocator`)
	// Layered: ghost variables indexed (first key) by store layer; viewEq / viewEqOld / view(l) range over them
	Layered []string
	Errors  []string
	Skipped []string
	Files   []string
}

type zeroInit struct {
	E       Expr
	PkgPath string
	Imports map[string]string
}

type zeroDecl struct {
	T  *TypeExpr
	ZI *zeroInit
}

type opaqueDecl struct {
	T       *TypeExpr
	PkgPath string
	Imports map[string]string
	SameAs  *TypeExpr
}

func newSpecDB() *SpecDB {
	return &SpecDB{Contracts: map[string]*Contract{}, Ghosts: map[string]*GhostFunc{}, GhostVars: map[string]*GhostVar{}, Immutable: map[string]bool{}, Handles: map[string]bool{}, Allocators: map[string]bool{}, ZeroInit: map[string]*zeroInit{}}
}

var closureNameRe = regexp.MustCompile(`^(.+)__(\d+)$`)

var labelRe = regexp.MustCompile(`^\[([A-Za-z0-9_.,\- ]+)\]`)

var clauseKw = map[string]bool{"requires": true, "ensures": true, "modifies": true, "panics": true, "pure": true,
	"assumed": true, "invariant": true, "decreases": true, "noinline": true, "trusted": true, "at": true, "deterministic": true, "fresh_writes": true, "hidden": true, "rederives": true}

// parseSpecFile reads //@ lines of one file. pkgPath is the package whose scope resolves unqualified Go names
// (for prelude files it is set by `//@ package "path"`).
func (db *SpecDB) parseSpecFile(file string, pkgPath string) {
	data, err := os.ReadFile(file)
	if err != nil {
		db.Errors = append(db.Errors, err.Error())
		return
	}
	db.Files = append(db.Files, file)
	imports := map[string]string{}
	var cur *Contract
	var curLoop *LoopSpec
	var lastClause *Clause
	var lastKind string
	errf := func(ln int, f string, a ...interface{}) {
		db.Errors = append(db.Errors, fmt.Sprintf("%s:%d: %s", file, ln, fmt.Sprintf(f, a...)))
	}
	lines := strings.Split(string(data), "\n")
	// join continuation lines: a //@ line whose first word is not a keyword continues the previous one
	type ent struct {
		ln int
		s  string
	}
	var ents []ent
	topKw := map[string]bool{"allocator": true, "import": true, "package": true, "opaque": true, "immutable": true, "handle": true, "ghost": true, "axiom": true, "func": true, "loop": true, "zeroinit": true, "functype": true, "layered": true, "representation": true}
	for i, raw := range lines {
		l := strings.TrimSpace(raw)
		var body string
		switch {
		case strings.HasPrefix(l, "//@"):
			body = l[3:]
		case strings.HasPrefix(l, "// @"):
			body = l[4:]
		default:
			continue
		}
		body = strings.TrimSpace(body)
		if body == "" || strings.HasPrefix(body, "#") {
			continue
		}
		w := firstWord(body)
		if topKw[w] || clauseKw[w] {
			ents = append(ents, ent{i + 1, body})
		} else if len(ents) > 0 {
			ents[len(ents)-1].s += " " + body
		} else {
			errf(i+1, "continuation line without a start")
		}
	}
	_ = lastClause
	_ = lastKind
	for _, en := range ents {
		body := en.s
		w := firstWord(body)
		rest := strings.TrimSpace(body[len(w):])
		switch w {
		case "package":
			p, err := strconv.Unquote(rest)
			if err != nil {
				errf(en.ln, "bad package line")
				continue
			}
			pkgPath = p
			cur, curLoop = nil, nil
		case "import":
			f := strings.Fields(rest)
			if len(f) == 2 {
				p, err := strconv.Unquote(f[1])
				if err != nil {
					errf(en.ln, "bad import")
					continue
				}
				imports[f[0]] = p
			} else if len(f) == 1 {
				p, err := strconv.Unquote(f[0])
				if err != nil {
					errf(en.ln, "bad import")
					continue
				}
				imports[p[strings.LastIndex(p, "/")+1:]] = p
			} else {
				errf(en.ln, "bad import")
			}
		case "opaque", "immutable", "handle":
			r := strings.TrimSpace(strings.TrimPrefix(rest, "type"))
			var same *TypeExpr
			if i := strings.Index(r, "="); i > 0 {
				st, err := parseTypeExpr(strings.TrimSpace(r[i+1:]))
				if err != nil {
					errf(en.ln, "%v", err)
					continue
				}
				same = st
				r = strings.TrimSpace(r[:i])
			}
			te, err := parseTypeExpr(r)
			if err != nil {
				errf(en.ln, "%v", err)
				continue
			}
			if w == "opaque" {
				db.Opaque = append(db.Opaque, opaqueDecl{T: te, PkgPath: pkgPath, Imports: copyMap(imports), SameAs: same})
			} else if w == "handle" {
				// handle type T: a value of this (opaque) type gives access to mutable world state (sdk.Context: every store
				// layer): handing it to a callee without a contract havocs everything
				db.Opaque = append(db.Opaque, opaqueDecl{T: &TypeExpr{Kind: "handle", V: te}, PkgPath: pkgPath, Imports: copyMap(imports)})
			} else {
				db.Opaque = append(db.Opaque, opaqueDecl{T: &TypeExpr{Kind: "immutable", V: te}, PkgPath: pkgPath, Imports: copyMap(imports)})
			}
		case "layered":
			// layered g1, g2, ... : these ghost variables are maps whose first key is a store layer
			for _, n := range strings.Split(rest, ",") {
				if n = strings.TrimSpace(n); n != "" {
					dup := false
					for _, x := range db.Layered {
						dup = dup || x == n
					}
					if !dup {
						db.Layered = append(db.Layered, n)
					}
				}
			}
			cur, curLoop = nil, nil
		case "allocator":
			// allocator g1, g2: ghost variables of type map[K]bool that only ever grow (identities handed out);
			// like the heap's allocation counter they are exempt from frame clauses and are havocked monotonically at
			// every call of a verified (non-assumed) contract
			for _, n := range strings.Split(rest, ",") {
				if n = strings.TrimSpace(n); n != "" {
					db.Allocators[n] = true
				}
			}
		case "zeroinit":
			// zeroinit T : expr-over-this
			i := strings.Index(rest, ":")
			if i < 0 {
				errf(en.ln, "zeroinit needs 'T : expr'")
				continue
			}
			te, err := parseTypeExpr(strings.TrimSpace(rest[:i]))
			if err != nil {
				errf(en.ln, "%v", err)
				continue
			}
			ex, err := parseExpr(rest[i+1:])
			if err != nil {
				errf(en.ln, "%v", err)
				continue
			}
			db.zeroDecls = append(db.zeroDecls, zeroDecl{te, &zeroInit{ex, pkgPath, copyMap(imports)}})
		case "ghost":
			w2 := firstWord(rest)
			r2 := strings.TrimSpace(rest[len(w2):])
			switch w2 {
			case "var":
				name := firstWord(r2)
				te, err := parseTypeExpr(strings.TrimSpace(r2[len(name):]))
				if err != nil {
					errf(en.ln, "%v", err)
					continue
				}
				db.GhostVars[name] = &GhostVar{name, te, pkgPath, copyMap(imports)}
				if te.Kind == "map" && te.K != nil && (te.K.Kind == "ptr" || te.K.Name == "ref") {
					refKeyedGhost["G|"+name] = true
				}
			case "func", "macro":
				g, err := parseGhostFunc(r2)
				if err != nil {
					errf(en.ln, "%v", err)
					continue
				}
				g.File, g.PkgPath, g.Imports = file, pkgPath, copyMap(imports)
				if w2 == "macro" {
					g.Macro = true
					if g.Body == nil {
						errf(en.ln, "ghost macro %s needs a body", g.Name)
						continue
					}
				}
				if _, dup := db.Ghosts[g.Name]; dup {
					errf(en.ln, "duplicate ghost func %s", g.Name)
				}
				db.Ghosts[g.Name] = g
			default:
				errf(en.ln, "bad ghost declaration")
			}
			cur, curLoop = nil, nil
		case "axiom", "representation":
			var axProps map[string]bool
			if m := labelRe.FindStringSubmatch(rest); m != nil {
				axProps = map[string]bool{}
				for _, l := range strings.Split(m[1], ",") {
					axProps[strings.TrimSpace(l)] = true
				}
				rest = strings.TrimSpace(rest[len(m[0]):])
			}
			i := strings.Index(rest, ":")
			if i < 0 {
				errf(en.ln, "axiom needs a name")
				continue
			}
			e, err := parseExpr(rest[i+1:])
			if err != nil {
				errf(en.ln, "%v", err)
				continue
			}
			ax := &Axiom{Name: strings.TrimSpace(rest[:i]), E: e, Src: rest[i+1:], PkgPath: pkgPath, Imports: copyMap(imports), Props: axProps}
			if w == "representation" {
				g, err := representedVar(e)
				if err != nil {
					errf(en.ln, "representation %s: %v", ax.Name, err)
					continue
				}
				ax.RepVar = g
			}
			db.Axioms = append(db.Axioms, ax)
			cur, curLoop = nil, nil
		case "func", "functype":
			c := &Contract{File: file, Line: en.ln, PkgPath: pkgPath, Imports: copyMap(imports), SigSrc: body, Loops: map[int]*LoopSpec{}, Props: map[string]bool{}, StrongProps: map[string]bool{}, CallAsserts: map[string][]*Clause{}, CallInvariants: map[string][]*Clause{}}
			sigSrc := body
			if w == "functype" {
				// functype pkg.Name(params) results
				i := strings.Index(rest, "(")
				if i < 0 {
					errf(en.ln, "bad functype line")
					continue
				}
				c.funcType = strings.TrimSpace(rest[:i])
				sigSrc = "func functype" + rest[i:]
			}
			if err := c.parseSig(sigSrc); err != nil {
				errf(en.ln, "%v", err)
				cur = nil
				continue
			}
			cur, curLoop = c, nil
			db.Contracts[fmt.Sprintf("%s:%d", file, en.ln)] = c // re-keyed in resolve
		case "loop":
			if cur == nil {
				errf(en.ln, "loop outside a func block")
				continue
			}
			n, err := strconv.Atoi(firstWord(rest))
			if err != nil {
				errf(en.ln, "loop needs an ordinal")
				continue
			}
			curLoop = &LoopSpec{Ordinal: n}
			if f := strings.Fields(rest); len(f) >= 3 && f[1] == "of" {
				// loop N of F: a loop of the callee F inlined into this function
				curLoop.Of, curLoop.Owner = f[2], cur
				if cur.InlinedLoops == nil {
					cur.InlinedLoops = map[string]map[int]*LoopSpec{}
				}
				if cur.InlinedLoops[f[2]] == nil {
					cur.InlinedLoops[f[2]] = map[int]*LoopSpec{}
				}
				cur.InlinedLoops[f[2]][n] = curLoop
				continue
			}
			cur.Loops[n] = curLoop
		default: // clause
			if cur == nil {
				errf(en.ln, "clause outside a func block")
				continue
			}
			atSite := ""
			atKind := ""
			if w == "at" {
				// at call F@n assert [label] expr
				f := strings.Fields(rest)
				if len(f) < 4 || f[0] != "call" || !(strings.HasPrefix(f[2], "assert") || strings.HasPrefix(f[2], "invariant")) {
					errf(en.ln, "expected: at call <Callee>@<n> assert|invariant [label] <expr>")
					continue
				}
				atSite = "call:" + f[1]
				kw := "assert"
				if strings.HasPrefix(f[2], "invariant") {
					kw = "invariant"
					atKind = "invariant"
				} else {
					atKind = "assert"
				}
				i := strings.Index(rest, kw)
				rest = strings.TrimSpace(rest[i+len(kw):])
			}
			label := ""
			if m := labelRe.FindStringSubmatch(rest); m != nil {
				label = strings.TrimSpace(m[1])
				rest = strings.TrimSpace(rest[len(m[0]):])
			}
			for _, l := range strings.Split(label, ",") {
				l = strings.TrimSpace(l)
				if len(l) >= 3 && l[0] == 'C' && unicodeDigit(l[1]) {
					id := l
					if i := strings.Index(l, "."); i > 0 {
						id = l[:i]
					}
					cur.Props[id] = true
					if w != "deterministic" {
						cur.StrongProps[id] = true
					}
				}
			}
			trusted := false
			if w == "trusted" {
				// trusted ensures [label] expr
				if firstWord(rest) != "ensures" && firstWord(rest) != "requires" {
					errf(en.ln, "only ensures / requires clauses can be marked trusted")
					continue
				}
				trusted = true
				w = firstWord(rest)
				rest = strings.TrimSpace(rest[len(w):])
				label = ""
				if m := labelRe.FindStringSubmatch(rest); m != nil {
					label = strings.TrimSpace(m[1])
					rest = strings.TrimSpace(rest[len(m[0]):])
				}
			}
			switch w {
			case "at":
				e, err := parseExpr(rest)
				if err != nil {
					errf(en.ln, "%v", err)
					continue
				}
				if atKind == "invariant" {
					cur.CallInvariants[atSite] = append(cur.CallInvariants[atSite], &Clause{Kind: "invariant", Label: label, Src: rest, E: e})
				} else {
					cur.CallAsserts[atSite] = append(cur.CallAsserts[atSite], &Clause{Kind: "assert", Label: label, Src: rest, E: e})
				}
			case "deterministic":
				// deterministic [label]: no call of a node-local source (wall clock, random numbers, environment, runtime
				// introspection) is reachable in the function's body or in anything inlined into it
				cur.Deterministic = true
				cur.DetLabel = label
			case "pure":
				cur.Pure = true
			case "assumed":
				cur.Assumed = true
			case "noinline":
				cur.NoInline = true
			case "rederives":
				cur.Rederives = true
			case "hidden":
				// hidden modifies target, target ...
				if firstWord(rest) != "modifies" {
					errf(en.ln, "expected: hidden modifies <targets>")
					continue
				}
				es, err := parseExprList(strings.TrimSpace(rest[len("modifies"):]))
				if err != nil {
					errf(en.ln, "%v", err)
					continue
				}
				cur.HiddenMod = append(cur.HiddenMod, es...)
				for _, e := range es {
					cur.HiddenSrc = append(cur.HiddenSrc, exprString(e))
				}
			case "fresh_writes":
				if curLoop == nil {
					errf(en.ln, "fresh_writes outside a loop block")
					continue
				}
				curLoop.FreshWrites = true
			case "modifies":
				if curLoop != nil {
					curLoop.HasModifies = true
					if rest == "nothing" || rest == "" {
						continue
					}
					es, err := parseExprList(rest)
					if err != nil {
						errf(en.ln, "%v", err)
						continue
					}
					curLoop.Modifies = append(curLoop.Modifies, es...)
					for _, e := range es {
						curLoop.ModSrc = append(curLoop.ModSrc, exprString(e))
					}
					continue
				}
				cur.HasModifies = true
				if rest == "nothing" || rest == "" {
					continue
				}
				var when Expr
				whenSrc := ""
				if strings.HasPrefix(rest, "when ") {
					// modifies when <cond> : target, target ...
					i := strings.Index(rest, " : ")
					if i < 0 {
						errf(en.ln, "expected: modifies when <condition> : <targets>")
						continue
					}
					we, err := parseExpr(rest[len("when "):i])
					if err != nil {
						errf(en.ln, "%v", err)
						continue
					}
					when, whenSrc = we, " (when "+strings.TrimSpace(rest[len("when "):i])+")"
					rest = strings.TrimSpace(rest[i+3:])
				}
				es, err := parseExprList(rest)
				if err != nil {
					errf(en.ln, "%v", err)
					continue
				}
				cur.Modifies = append(cur.Modifies, es...)
				for _, e := range es {
					cur.ModSrc = append(cur.ModSrc, exprString(e)+whenSrc)
					cur.ModWhen = append(cur.ModWhen, when)
				}
			case "panics":
				m := firstWord(rest)
				r := strings.TrimSpace(rest[len(m):])
				cur.PanicLabel = label
				switch m {
				case "never", "any":
					cur.PanicMode = m
				case "only_if", "iff":
					e, err := parseExpr(r)
					if err != nil {
						errf(en.ln, "%v", err)
						continue
					}
					cur.PanicMode, cur.PanicCond, cur.PanicSrc = m, e, r
				default:
					errf(en.ln, "bad panics clause")
				}
			case "requires", "ensures", "invariant":
				e, err := parseExpr(rest)
				if err != nil {
					errf(en.ln, "%v", err)
					continue
				}
				cl := &Clause{Kind: w, Label: label, Src: rest, E: e, Trusted: trusted}
				switch w {
				case "requires":
					if trusted {
						cur.TrustedRequires = append(cur.TrustedRequires, cl)
					} else {
						cur.Requires = append(cur.Requires, cl)
					}
				case "ensures":
					cur.Ensures = append(cur.Ensures, cl)
				case "invariant":
					if curLoop == nil {
						errf(en.ln, "invariant outside a loop block")
						continue
					}
					curLoop.Invariants = append(curLoop.Invariants, cl)
				}
			case "decreases":
				e, err := parseExpr(rest)
				if err != nil {
					errf(en.ln, "%v", err)
					continue
				}
				if curLoop != nil {
					curLoop.Decreases = e
				}
			}
		}
	}
}

// representedVar checks the shape of a `representation` declaration: forall x1 T1, .., xn Tn :: g[x1]..[xn] == expr
// (the ghost variable g indexed by exactly the bound variables, in order) and returns g. That expr mentions no
// represented ghost variable (so that the declarations DEFINE their variables: always satisfiable, for every value of
// the remaining state) is checked once all declarations are known (checkRepresentations).
func representedVar(e Expr) (string, error) {
	var vars []QVar
	for {
		q, ok := e.(*EQuant)
		if !ok {
			break
		}
		if !q.Forall {
			return "", fmt.Errorf("expected forall")
		}
		vars = append(vars, q.Vars...)
		e = q.Body
	}
	b, ok := e.(*EBin)
	if !ok || (b.Op != "==" && b.Op != "<==>") {
		return "", fmt.Errorf("expected: forall xs :: g[xs] == expr")
	}
	lhs := b.X
	for i := len(vars) - 1; i >= 0; i-- {
		ix, ok := lhs.(*EIndex)
		if !ok {
			return "", fmt.Errorf("left-hand side must be the ghost variable indexed by the %d bound variables", len(vars))
		}
		id, ok := ix.I.(*EIdent)
		if !ok || id.Name != vars[i].Name {
			return "", fmt.Errorf("index %d of the left-hand side must be the bound variable %s", i+1, vars[i].Name)
		}
		lhs = ix.X
	}
	g, ok := lhs.(*EIdent)
	if !ok {
		return "", fmt.Errorf("left-hand side must be a ghost variable indexed by the bound variables")
	}
	return g.Name, nil
}

// checkRepresentations: every represented name is a ghost variable, defined once, and no defining expression mentions
// a represented variable (directly or through a ghost macro).
func (db *SpecDB) checkRepresentations() {
	rep := map[string]string{}
	for _, ax := range db.Axioms {
		if ax.RepVar == "" {
			continue
		}
		if _, ok := db.GhostVars[ax.RepVar]; !ok {
			db.Errors = append(db.Errors, fmt.Sprintf("representation %s: %s is not a ghost variable", ax.Name, ax.RepVar))
		}
		if o, dup := rep[ax.RepVar]; dup {
			db.Errors = append(db.Errors, fmt.Sprintf("representation %s: %s is already defined by %s", ax.Name, ax.RepVar, o))
		}
		rep[ax.RepVar] = ax.Name
	}
	for _, ax := range db.Axioms {
		if ax.RepVar == "" {
			continue
		}
		e := ax.E
		for {
			q, ok := e.(*EQuant)
			if !ok {
				break
			}
			e = q.Body
		}
		ids := map[string]bool{}
		db.exprIdents(e.(*EBin).Y, ids, 0)
		for _, n := range sortedKeys(ids) {
			if _, bad := rep[n]; bad {
				db.Errors = append(db.Errors, fmt.Sprintf("representation %s: the defining expression mentions the represented variable %s", ax.Name, n))
			}
		}
	}
}

// exprIdents collects the identifiers of e (through the bodies of ghost funcs / macros it calls).
func (db *SpecDB) exprIdents(e Expr, out map[string]bool, depth int) {
	if depth > 8 {
		return
	}
	switch x := e.(type) {
	case *EIdent:
		out[x.Name] = true
	case *EUn:
		db.exprIdents(x.X, out, depth)
	case *EBin:
		db.exprIdents(x.X, out, depth)
		db.exprIdents(x.Y, out, depth)
	case *ECond:
		db.exprIdents(x.C, out, depth)
		db.exprIdents(x.A, out, depth)
		db.exprIdents(x.B, out, depth)
	case *ECall:
		if id, ok := x.Fun.(*EIdent); ok {
			if g, ok := db.Ghosts[id.Name]; ok && g.Body != nil {
				db.exprIdents(g.Body, out, depth+1)
			}
		} else {
			db.exprIdents(x.Fun, out, depth)
		}
		for _, a := range x.Args {
			db.exprIdents(a, out, depth)
		}
	case *ESel:
		db.exprIdents(x.X, out, depth)
	case *EIndex:
		db.exprIdents(x.X, out, depth)
		db.exprIdents(x.I, out, depth)
	case *EUpd:
		db.exprIdents(x.X, out, depth)
		db.exprIdents(x.I, out, depth)
		db.exprIdents(x.V, out, depth)
	case *ESlice:
		db.exprIdents(x.X, out, depth)
		if x.Lo != nil {
			db.exprIdents(x.Lo, out, depth)
		}
		if x.Hi != nil {
			db.exprIdents(x.Hi, out, depth)
		}
	case *EQuant:
		db.exprIdents(x.Body, out, depth)
	case *EOld:
		db.exprIdents(x.X, out, depth)
	}
}

func unicodeDigit(b byte) bool { return b >= '0' && b <= '9' }

func copyMap(m map[string]string) map[string]string {
	o := make(map[string]string, len(m))
	for k, v := range m {
		o[k] = v
	}
	return o
}

func firstWord(s string) string {
	s = strings.TrimSpace(s)
	for i, c := range s {
		if c == ' ' || c == '\t' || c == '[' || c == '(' {
			return s[:i]
		}
	}
	return s
}

func parseTypeExpr(src string) (te *TypeExpr, err error) {
	defer func() {
		if r := recover(); r != nil {
			if er, ok := r.(error); ok {
				err = er
				return
			}
			panic(r)
		}
	}()
	ts, err := lex(src)
	if err != nil {
		return nil, err
	}
	p := &sparser{t: ts}
	te = p.typeExpr()
	if p.peek().k != "eof" {
		return nil, fmt.Errorf("trailing tokens in type %q", src)
	}
	return te, nil
}

// ghost func name(a T, b U) R [= expr]
func parseGhostFunc(src string) (g *GhostFunc, err error) {
	defer func() {
		if r := recover(); r != nil {
			if er, ok := r.(error); ok {
				err = fmt.Errorf("%v in ghost func %q", er, src)
				return
			}
			panic(r)
		}
	}()
	ts, err := lex(src)
	if err != nil {
		return nil, err
	}
	p := &sparser{t: ts}
	g = &GhostFunc{}
	g.Name = p.ident()
	p.expect("(")
	if !p.isOp(")") {
		for {
			names := []string{p.ident()}
			for p.accept(",") {
				names = append(names, p.ident())
			}
			t := p.typeExpr()
			for _, n := range names {
				g.Params = append(g.Params, QVar{n, t})
			}
			if !p.accept(",") {
				break
			}
		}
	}
	p.expect(")")
	g.Ret = p.typeExpr()
	if p.accept("=") {
		g.Body = p.expr()
	}
	if p.peek().k != "eof" {
		return nil, fmt.Errorf("trailing tokens in ghost func %q", src)
	}
	return g, nil
}

// parseSig parses "func (r T) Name(a A, b B) (x X, err error)" with go/parser.
func (c *Contract) parseSig(sig string) error {
	src := "package p\n" + sig + " {}\n"
	f, err := goparser.ParseFile(token.NewFileSet(), "sig.go", src, 0)
	if err != nil {
		return fmt.Errorf("cannot parse signature %q: %v", sig, err)
	}
	fd, ok := f.Decls[0].(*ast.FuncDecl)
	if !ok {
		return fmt.Errorf("not a func: %q", sig)
	}
	c.Key = fd.Name.Name // provisional; resolve() fills in
	if fd.Recv != nil && len(fd.Recv.List) == 1 {
		r := fd.Recv.List[0]
		if len(r.Names) == 1 {
			c.RecvName = r.Names[0].Name
		} else {
			c.RecvName = "_recv"
		}
		c.Aliases = nil
		c.recvExpr = r.Type
	}
	for _, p := range fd.Type.Params.List {
		if len(p.Names) == 0 {
			c.Params = append(c.Params, "_")
		}
		for _, n := range p.Names {
			c.Params = append(c.Params, n.Name)
		}
	}
	if fd.Type.Results != nil {
		for _, p := range fd.Type.Results.List {
			if len(p.Names) == 0 {
				c.Results = append(c.Results, "")
			}
			for _, n := range p.Names {
				c.Results = append(c.Results, n.Name)
			}
		}
	}
	c.funcName = fd.Name.Name
	return nil
}

// resolution -----------------------------------------------------------------

type resolver struct {
	P *Program
}

func (P *Program) lookupPkg(path string) *types.Package {
	if tp, ok := P.TPkgs[path]; ok {
		return tp
	}
	return nil
}

func (P *Program) resolveNamed(name string, pkgPath string, imports map[string]string) (types.Object, error) {
	if i := strings.Index(name, "."); i >= 0 {
		alias, id := name[:i], name[i+1:]
		path, ok := imports[alias]
		if !ok {
			return nil, fmt.Errorf("unknown import alias %q", alias)
		}
		tp := P.lookupPkg(path)
		if tp == nil {
			return nil, fmt.Errorf("package %q is not loaded", path)
		}
		o := tp.Scope().Lookup(id)
		if o == nil {
			return nil, fmt.Errorf("%s not found in %s", id, path)
		}
		return o, nil
	}
	if tp := P.lookupPkg(pkgPath); tp != nil {
		if o := tp.Scope().Lookup(name); o != nil {
			return o, nil
		}
	}
	if o := types.Universe.Lookup(name); o != nil {
		return o, nil
	}
	return nil, fmt.Errorf("%s not found (package %s)", name, pkgPath)
}

func (P *Program) resolveASTType(e ast.Expr, pkgPath string, imports map[string]string) (types.Type, error) {
	switch e := e.(type) {
	case *ast.Ident:
		o, err := P.resolveNamed(e.Name, pkgPath, imports)
		if err != nil {
			return nil, err
		}
		tn, ok := o.(*types.TypeName)
		if !ok {
			return nil, fmt.Errorf("%s is not a type", e.Name)
		}
		return tn.Type(), nil
	case *ast.SelectorExpr:
		x, ok := e.X.(*ast.Ident)
		if !ok {
			return nil, fmt.Errorf("bad qualified type")
		}
		o, err := P.resolveNamed(x.Name+"."+e.Sel.Name, pkgPath, imports)
		if err != nil {
			return nil, err
		}
		tn, ok := o.(*types.TypeName)
		if !ok {
			return nil, fmt.Errorf("%s.%s is not a type", x.Name, e.Sel.Name)
		}
		return tn.Type(), nil
	case *ast.StarExpr:
		t, err := P.resolveASTType(e.X, pkgPath, imports)
		if err != nil {
			return nil, err
		}
		return types.NewPointer(t), nil
	case *ast.ParenExpr:
		return P.resolveASTType(e.X, pkgPath, imports)
	case *ast.ArrayType:
		t, err := P.resolveASTType(e.Elt, pkgPath, imports)
		if err != nil {
			return nil, err
		}
		if e.Len == nil {
			return types.NewSlice(t), nil
		}
		return nil, fmt.Errorf("array types not supported in signatures")
	}
	return nil, fmt.Errorf("unsupported type syntax %T", e)
}

// resolveContracts turns provisional keys into (*types.Func).FullName() keys.
func (db *SpecDB) resolveContracts(P *Program) {
	old := db.Contracts
	db.Contracts = map[string]*Contract{}
	keys := make([]string, 0, len(old))
	for k := range old {
		keys = append(keys, k)
	}
	sort.Strings(keys)
	for _, k := range keys {
		c := old[k]
		var sig *types.Signature
		if c.PkgPath != "" && P.lookupPkg(c.PkgPath) == nil {
			// contract for a package that is not part of this load: irrelevant here (a wrong path would also leave
			// the functions that need it without contract, which the checks report)
			db.Skipped = append(db.Skipped, fmt.Sprintf("%s:%d (package %s not loaded)", c.File, c.Line, c.PkgPath))
			continue
		}
		if c.funcType == "func" {
			// unnamed function type: functype func(a A, b B) R — the contract of calls through plain func values of that type
			sg, err := c.resolveUnnamedFuncType(P)
			if err != nil {
				db.Errors = append(db.Errors, fmt.Sprintf("%s:%d: %v", c.File, c.Line, err))
				continue
			}
			sig = sg
			c.Key = "dyncall:" + typeStr(sg)
		} else if c.funcType != "" {
			o, err := P.resolveNamed(c.funcType, c.PkgPath, c.Imports)
			if err != nil {
				db.Errors = append(db.Errors, fmt.Sprintf("%s:%d: %v", c.File, c.Line, err))
				continue
			}
			tn, ok := o.(*types.TypeName)
			if !ok {
				db.Errors = append(db.Errors, fmt.Sprintf("%s:%d: %s is not a type", c.File, c.Line, c.funcType))
				continue
			}
			sg, ok := tn.Type().Underlying().(*types.Signature)
			if !ok {
				db.Errors = append(db.Errors, fmt.Sprintf("%s:%d: %s is not a function type", c.File, c.Line, c.funcType))
				continue
			}
			sig = sg
			c.Key = "dyncall:" + typeStr(tn.Type())
		} else if m := closureNameRe.FindStringSubmatch(c.funcName); m != nil {
			// `func Parent__N(params) results`: the N-th anonymous function (SSA numbering Parent$N) inside Parent
			inner := c.funcName
			c.funcName = m[1]
			parent, err := c.resolveFunc(P)
			c.funcName = inner
			if err != nil {
				db.Errors = append(db.Errors, fmt.Sprintf("%s:%d: %v", c.File, c.Line, err))
				continue
			}
			c.Key = parent.FullName() + "$" + m[2]
			var cf *ssa.Function
			for _, f := range P.allFunctions() {
				if f.String() == c.Key {
					cf = f
				}
			}
			if cf == nil {
				db.Errors = append(db.Errors, fmt.Sprintf("%s:%d: no anonymous function %s", c.File, c.Line, c.Key))
				continue
			}
			sig = cf.Signature
			c.RecvName, c.recvExpr = "", nil
			c.closure = true
		} else if v := c.resolveFuncVar(P); v != nil {
			// package-level variable of function type (e.g. `var MsgTypeURL = codectypes.MsgTypeURL`): the contract
			// applies to calls through the variable (package-level variables are assumed not to be reassigned, T4)
			sig = v.Type().Underlying().(*types.Signature)
			c.Key = "varcall:" + v.Pkg().Path() + "." + v.Name()
			c.funcType = v.Name()
			c.viaVar = true
		} else {
			obj, err := c.resolveFunc(P)
			if err != nil {
				if tp := P.lookupPkg(c.PkgPath); tp != nil && !tp.Complete() {
					// the package is only known through other packages' export data (an indirect dependency of this
					// load): its scope is partial, the functions of this contract cannot be called by the loaded code
					db.Skipped = append(db.Skipped, fmt.Sprintf("%s:%d (package %s only partially loaded)", c.File, c.Line, c.PkgPath))
					continue
				}
				db.Errors = append(db.Errors, fmt.Sprintf("%s:%d: %v", c.File, c.Line, err))
				continue
			}
			c.Obj = obj
			c.Key = obj.FullName()
			sig = obj.Type().(*types.Signature)
		}
		c.Sig = sig
		if sig.Params().Len() != len(c.Params) {
			db.Errors = append(db.Errors, fmt.Sprintf("%s:%d: %s has %d parameters, contract declares %d", c.File, c.Line, c.Key, sig.Params().Len(), len(c.Params)))
			continue
		}
		if len(c.Results) != 0 && sig.Results().Len() != len(c.Results) {
			db.Errors = append(db.Errors, fmt.Sprintf("%s:%d: %s has %d results, contract declares %d", c.File, c.Line, c.Key, sig.Results().Len(), len(c.Results)))
			continue
		}
		if prev, dup := db.Contracts[c.Key]; dup {
			if prev.Assumed && c.Assumed && len(typeGuards(prev)) > 0 && len(typeGuards(c)) > 0 {
				prev.Alts = append(prev.Alts, c)
				continue
			}
			db.Errors = append(db.Errors, fmt.Sprintf("%s:%d: duplicate contract for %s (also %s:%d)", c.File, c.Line, c.Key, prev.File, prev.Line))
			continue
		}
		db.Contracts[c.Key] = c
	}
}

func (c *Contract) resolveFuncVar(P *Program) *types.Var {
	if c.recvExpr != nil {
		return nil
	}
	o, err := P.resolveNamed(c.funcName, c.PkgPath, c.Imports)
	if err != nil {
		return nil
	}
	v, ok := o.(*types.Var)
	if !ok || v.Pkg() == nil || v.Parent() != v.Pkg().Scope() {
		return nil
	}
	if _, ok := v.Type().Underlying().(*types.Signature); !ok {
		return nil
	}
	return v
}

func (c *Contract) resolveUnnamedFuncType(P *Program) (*types.Signature, error) {
	f, err := goparser.ParseFile(token.NewFileSet(), "sig.go", "package p\nfunc functype"+c.SigSrc[strings.Index(c.SigSrc, "("):]+" {}\n", 0)
	if err != nil {
		return nil, fmt.Errorf("cannot parse functype signature: %v", err)
	}
	fd := f.Decls[0].(*ast.FuncDecl)
	tuple := func(fl *ast.FieldList) (*types.Tuple, error) {
		var vs []*types.Var
		if fl == nil {
			return types.NewTuple(), nil
		}
		for _, fld := range fl.List {
			t, err := P.resolveASTType(fld.Type, c.PkgPath, c.Imports)
			if err != nil {
				return nil, err
			}
			n := len(fld.Names)
			if n == 0 {
				n = 1
			}
			for i := 0; i < n; i++ {
				vs = append(vs, types.NewVar(token.NoPos, nil, "", t))
			}
		}
		return types.NewTuple(vs...), nil
	}
	ps, err := tuple(fd.Type.Params)
	if err != nil {
		return nil, err
	}
	rs, err := tuple(fd.Type.Results)
	if err != nil {
		return nil, err
	}
	return types.NewSignatureType(nil, nil, nil, ps, rs, false), nil
}

func (c *Contract) resolveFunc(P *Program) (*types.Func, error) {
	if c.recvExpr == nil {
		o, err := P.resolveNamed(c.funcName, c.PkgPath, c.Imports)
		if err != nil {
			return nil, err
		}
		f, ok := o.(*types.Func)
		if !ok {
			return nil, fmt.Errorf("%s is not a function", c.funcName)
		}
		return f, nil
	}
	rt, err := P.resolveASTType(c.recvExpr, c.PkgPath, c.Imports)
	if err != nil {
		return nil, err
	}
	var pkg *types.Package
	if tp := P.lookupPkg(c.PkgPath); tp != nil {
		pkg = tp
	}
	obj, _, _ := types.LookupFieldOrMethod(rt, true, pkg, c.funcName)
	if obj == nil {
		// unexported method of a type from another package: search with that type's package
		if n, ok := derefNamed(rt); ok && n.Obj().Pkg() != nil {
			obj, _, _ = types.LookupFieldOrMethod(rt, true, n.Obj().Pkg(), c.funcName)
		}
	}
	f, ok := obj.(*types.Func)
	if !ok {
		return nil, fmt.Errorf("method %s not found on %s", c.funcName, typeStr(rt))
	}
	return f, nil
}

func derefNamed(t types.Type) (*types.Named, bool) {
	if p, ok := t.(*types.Pointer); ok {
		t = p.Elem()
	}
	n, ok := t.(*types.Named)
	return n, ok
}

// loadSpecs reads every contract file of the root packages and every *.spec under the given dirs.
func loadSpecs(P *Program, dirs []string) *SpecDB {
	db := newSpecDB()
	for _, d := range dirs {
		files, _ := filepath.Glob(filepath.Join(d, "*.spec"))
		sort.Strings(files)
		for _, f := range files {
			db.parseSpecFile(f, "")
		}
	}
	for _, pp := range sortedKeys(P.ContractFiles) {
		for _, f := range P.ContractFiles[pp] {
			db.parseSpecFile(f, pp)
		}
	}
	db.resolveContracts(P)
	db.checkRepresentations()
	return db
}

// typeGuards: the atoms `typeof(p) == type(T)` of the requires clauses of c, as (parameter name, type expression) pairs.
func typeGuards(c *Contract) [][2]interface{} {
	var out [][2]interface{}
	var walk func(x Expr)
	walk = func(x Expr) {
		switch x := x.(type) {
		case *EBin:
			if x.Op == "==" {
				if call, ok := x.X.(*ECall); ok {
					if id, ok := call.Fun.(*EIdent); ok && id.Name == "typeof" && len(call.Args) == 1 {
						if pn, ok := call.Args[0].(*EIdent); ok {
							if tl, ok := x.Y.(*ETypeLit); ok {
								out = append(out, [2]interface{}{pn.Name, tl.T})
							}
						}
					}
				}
			}
			walk(x.X)
			walk(x.Y)
		case *EUn:
			walk(x.X)
		}
	}
	for _, r := range c.Requires {
		walk(r.E)
	}
	return out
}
