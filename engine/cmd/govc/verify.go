package main

import (
	"fmt"
	"go/types"
	"sort"
	"strings"

	"golang.org/x/tools/go/ssa"
)

// FuncResult is everything the encoder produced for one function under contract.
type FuncResult struct {
	Fn          *ssa.Function
	Contract    *Contract
	Enc         *Enc
	Obls        []*Obligation
	Unsupported []string
	Preamble    []string
	EntryTerms  map[string]Sc
	EntryErrs   map[string]string
}

// footprint of a modifies clause: heap key -> first-level index terms (nil slice = whole key)
type footprint struct {
	whole map[string]bool
	idx   map[string][]string
	all   bool
	// conditional targets ("modifies when c : t"): condition per (key, position in idx[key]) / per whole key; "" = always
	idxCond   map[string][]string
	wholeCond map[string]string
	curCond   string
}

func (env *Env) footprintOf(c *Contract) (*footprint, error) {
	return env.footprintOfTargets(c.Modifies, c.ModWhen)
}

func (env *Env) footprintOfTargets(mods []Expr, when []Expr) (*footprint, error) {
	e := env.e
	fp := &footprint{whole: map[string]bool{}, idx: map[string][]string{}, idxCond: map[string][]string{}, wholeCond: map[string]string{}}
	add := func(k, i string) {
		fp.idx[k] = append(fp.idx[k], i)
		fp.idxCond[k] = append(fp.idxCond[k], fp.curCond)
	}
	for mi, m := range mods {
		fp.curCond = ""
		if mi < len(when) && when[mi] != nil {
			t, err := env.evalBool(when[mi])
			if err != nil {
				return nil, err
			}
			if t == "false" {
				continue
			}
			if t != "true" {
				fp.curCond = t
			}
		}
		if call, ok := m.(*ECall); ok {
			if fid, ok := call.Fun.(*EIdent); ok && fid.Name == "effects" {
				// inside the function itself a call through the function value can do anything
				fp.all = true
				continue
			}
		}
		switch x := m.(type) {
		case *EIdent:
			if x.Name == "everything" {
				fp.all = true
				continue
			}
			if x.Name == "views" {
				for _, gn := range e.DB.Layered {
					if _, ok := e.DB.GhostVars[gn]; ok {
						fp.whole["G|"+gn] = true
					}
				}
				continue
			}
			if _, ok := e.DB.GhostVars[x.Name]; ok {
				fp.setWhole("G|" + x.Name)
				continue
			}
			return nil, fmt.Errorf("unsupported modifies target %s", exprString(m))
		case *EIndex:
			if g, idxs, err := env.ghostPath(x); err == nil {
				add("G|"+g.Name, idxs[0])
				continue
			}
			a, err := env.eval(x.X)
			if err != nil {
				return nil, err
			}
			if a.T != nil {
				if u, ok := a.T.Underlying().(*types.Slice); ok && len(a.L) == 4 {
					for _, lf := range e.TI.shape(u.Elem()) {
						add("S|"+typeStr(u.Elem())+"|"+lf.Path, a.L[0].T)
					}
					continue
				}
				if _, ok := a.T.Underlying().(*types.Map); ok && len(a.L) == 1 {
					e.addMapKeys(fp, a.T, a.L[0].T)
					continue
				}
			}
			return nil, fmt.Errorf("unsupported modifies target %s", exprString(m))
		case *ESel:
			v, err := env.eval(x.X)
			if err != nil {
				return nil, err
			}
			if v.Loc == nil && (v.T == nil || !isPointer(v.T)) {
				return nil, fmt.Errorf("modifies target %s is not a field of a pointer", exprString(m))
			}
			loc := e.ptrLoc(v)
			stt, ok := loc.T.Underlying().(*types.Struct)
			if !ok {
				return nil, fmt.Errorf("modifies target %s", exprString(m))
			}
			path, ft, ok := findField(stt, x.Name)
			if !ok {
				return nil, fmt.Errorf("no field %s", x.Name)
			}
			for _, lf := range e.TI.shape(ft) {
				nl := *loc
				nl.Path += path
				k, _ := locKeySort(&nl, lf)
				add(k, loc.Ref)
			}
		case *EUn:
			v, err := env.eval(x.X)
			if err != nil {
				return nil, err
			}
			loc := e.ptrLoc(v)
			for _, lf := range e.TI.shape(loc.T) {
				k, _ := locKeySort(loc, lf)
				add(k, loc.Ref)
			}
		case *ECall:
			id, _ := x.Fun.(*EIdent)
			if id != nil && id.Name == "elems" && len(x.Args) == 1 {
				if tl, ok := x.Args[0].(*ETypeLit); ok {
					gt, err := e.resolveGoType(tl.T, env.pkgPath, env.imports)
					if err != nil {
						return nil, err
					}
					for _, lf := range e.TI.shape(gt) {
						fp.setWhole("S|" + typeStr(gt) + "|" + lf.Path)
					}
					continue
				}
			}
			if id != nil && id.Name == "view" && len(x.Args) == 1 {
				l, err := env.evalInt(x.Args[0])
				if err != nil {
					return nil, err
				}
				for _, gn := range e.DB.Layered {
					if _, ok := e.DB.GhostVars[gn]; ok {
						add("G|"+gn, l)
					}
				}
				continue
			}
			if id != nil && id.Name == "fieldof" && len(x.Args) == 2 {
				// fieldof(type(T), f): field f of every object of struct type T
				tl, ok1 := x.Args[0].(*ETypeLit)
				fn, ok2 := x.Args[1].(*EIdent)
				if ok1 && ok2 {
					keys, err := e.fieldKeys(tl.T, fn.Name, env.pkgPath, env.imports)
					if err != nil {
						return nil, err
					}
					for _, k := range keys {
						fp.setWhole(k[0])
					}
					continue
				}
			}
			if id != nil && id.Name == "contents" && len(x.Args) == 1 {
				v, err := env.eval(x.Args[0])
				if err != nil {
					return nil, err
				}
				if v.T != nil {
					switch u := v.T.Underlying().(type) {
					case *types.Map:
						e.addMapKeys(fp, v.T, v.L[0].T)
						continue
					case *types.Slice:
						for _, lf := range e.TI.shape(u.Elem()) {
							add("S|"+typeStr(u.Elem())+"|"+lf.Path, v.L[0].T)
						}
						continue
					}
				}
			}
			return nil, fmt.Errorf("unsupported modifies target %s", exprString(m))
		default:
			return nil, fmt.Errorf("unsupported modifies target %s", exprString(m))
		}
	}
	return fp, nil
}

func (e *Enc) addMapKeys(fp *footprint, mt types.Type, m string) {
	ksort, dk, _, vleaves, ok := e.mapKeys(mt)
	if !ok {
		return
	}
	fp.idx[dk] = append(fp.idx[dk], m)
	fp.idxCond[dk] = append(fp.idxCond[dk], fp.curCond)
	for _, lf := range vleaves {
		k, _ := mapValKey(mt, lf, ksort)
		fp.idx[k] = append(fp.idx[k], m)
		fp.idxCond[k] = append(fp.idxCond[k], fp.curCond)
	}
}

// currentProperty: the property being checked (set by the check command); scopes `axiom[Cxx] ...`.
var currentProperty string

// verifyFunction encodes fn against its contract and returns the obligations.
func verifyFunction(P *Program, db *SpecDB, ti *TypeInfo, fn *ssa.Function, c *Contract, entryExprs map[string]string) *FuncResult {
	e := newEnc(P, db, ti)
	e.funcName = fnKey(fn)
	res := &FuncResult{Fn: fn, Contract: c, Enc: e}
	e.emit("; function " + fn.String())
	e.declSort("Str")
	e.declSort("Flt")
	e.declSort("Unk")
	st := &State{heap: map[string]string{}, reach: "true"}
	st.alloc = e.declConst("alloc@0", "Int")
	e.assert("(<= 0 alloc@0)")
	fr := &Frame{fn: fn, vals: map[ssa.Value]*Val{}, top: true, contract: c}
	e.top = fr
	for _, p := range fn.Params {
		v := e.freshVal(st, "in!"+p.Name(), p.Type())
		fr.vals[p] = v
		fr.args = append(fr.args, v)
	}
	// a closure under contract: each captured variable is a distinct, allocated cell with an arbitrary content
	var fvRefs []string
	for _, fv := range fn.FreeVars {
		if !isPointer(fv.Type()) {
			e.unsupportedf("closure under contract captures %s by value (unexpected SSA form)", fv.Name())
			continue
		}
		v := e.freshVal(st, "fv!"+fv.Name(), fv.Type())
		fr.vals[fv] = v
		e.assert("(> " + v.L[0].T + " 0)")
		for _, o := range fvRefs {
			e.assert(not(eq(o, v.L[0].T)))
		}
		fvRefs = append(fvRefs, v.L[0].T)
	}
	// axioms
	for _, ax := range db.Axioms {
		if ax.PkgPath != "" && P.lookupPkg(ax.PkgPath) == nil {
			continue // an axiom of a package that is not part of this load (like the contracts of that package)
		}
		if len(ax.Props) > 0 && currentProperty != "" && !ax.Props[currentProperty] {
			continue // a theory axiom scoped to other properties
		}
		env := &Env{e: e, vars: map[string]*Val{}, st: st, old: st, pkgPath: ax.PkgPath, imports: ax.Imports}
		t, err := env.evalBool(ax.E)
		if err != nil {
			e.unsupportedf("axiom %s: %v", ax.Name, err)
			continue
		}
		if ax.RepVar != "" {
			// the relevance filter judges a definition by what it is defined FROM (see irrelevantAxioms)
			e.emit("; axiom " + ax.Name + " defines G!" + ax.RepVar)
		} else {
			e.emit("; axiom " + ax.Name)
		}
		lo := len(e.out)
		e.assert(t)
		e.axiomLines = append(e.axiomLines, axiomLine{lo: lo, hi: len(e.out), syms: ghostSymbols(t)})
	}
	entry := st.clone()
	fr.entry = entry
	env := e.envFor(fr, st)
	env.old = entry
	var reqs []string
	for _, rq := range c.Requires {
		t, err := env.evalBool(rq.E)
		if err != nil {
			e.unsupportedf("requires %s: %v", rq.Src, err)
			continue
		}
		e.assert(t)
		reqs = append(reqs, t)
	}
	// trusted requires: environment assumptions of the verified body that callers are not asked to establish
	for _, rq := range c.TrustedRequires {
		t, err := env.evalBool(rq.E)
		if err != nil {
			e.unsupportedf("trusted requires %s: %v", rq.Src, err)
			continue
		}
		e.assert(t)
		e.trustedClauses = append(e.trustedClauses, "trusted requires of "+c.Key+": "+rq.Src)
	}
	// the function's own panic condition is evaluated now, so that its definitions are in every obligation's prefix
	panicCond := ""
	if c.PanicMode == "only_if" || c.PanicMode == "iff" {
		t, err := env.evalBool(c.PanicCond)
		if err != nil {
			e.unsupportedf("panics clause: %v", err)
		} else {
			panicCond = t
		}
	}
	// expressions over the entry state requested by the caller (known-finding excuses, replay observables):
	// evaluated here so that their definitions are part of every obligation's prefix
	res.EntryTerms = map[string]Sc{}
	res.EntryErrs = map[string]string{}
	for _, k := range sortedKeys(entryExprs) {
		ex, err := parseExpr(entryExprs[k])
		if err != nil {
			res.EntryErrs[k] = err.Error()
			continue
		}
		v, err := env.eval(ex)
		if err != nil {
			res.EntryErrs[k] = err.Error()
			continue
		}
		if len(v.L) != 1 {
			res.EntryErrs[k] = "not a scalar expression"
			continue
		}
		res.EntryTerms[k] = v.L[0]
	}
	// entry state may have been extended by lazy heap reads while evaluating requires
	fr.entry = st.clone()
	// vacuity guard: precondition satisfiable
	e.addObl(&Obligation{Name: "cover:precondition", Kind: "cover", Cover: true, Clause: "requires ∧ typing is satisfiable", Reach: "true", Goal: "false"})

	e.encodeBody(fr, st)

	// merge exits
	var sts []*State
	var conds []string
	var ress []*Val
	for _, x := range fr.exits {
		if x.st.reach == "false" {
			continue
		}
		sts = append(sts, x.st)
		conds = append(conds, x.st.reach)
		ress = append(ress, x.res)
	}
	rt := resultTypeOfSig(fn.Signature)
	if len(sts) > 0 {
		final := e.mergeStates("exit", sts, conds)
		var result *Val
		if rt != nil {
			result = e.mergeVals("result", ress, conds)
			if result != nil && result.Loc == nil && result.Clos == nil {
				r2 := *result
				r2.T = rt
				result = &r2
			}
		}
		if c.Rederives {
			e.rederive(db, P, final)
		}
		penv := e.envFor(fr, final)
		penv.old = fr.entry
		penv.fr = nil // postconditions talk about parameters and results only
		// rebind parameters to their entry values (Go parameters are values; SSA params are immutable)
		penv.bindResults(c, result, rt)
		e.addObl(&Obligation{Name: "cover:return", Kind: "cover", Cover: true, Clause: "a normal return is reachable under the precondition", Reach: final.reach, Goal: "false"})
		for i, en := range c.Ensures {
			if en.Trusted {
				e.trustedClauses = append(e.trustedClauses, "trusted ensures of "+c.Key+": "+en.Src)
				continue
			}
			g, err := penv.evalBool(en.E)
			if err != nil {
				e.unsupportedf("ensures %s: %v", en.Src, err)
				continue
			}
			e.addObl(&Obligation{Name: "ensures:" + clauseName(en, i), Kind: "ensures", Label: en.Label, Clause: en.Src, Reach: final.reach, Goal: g, Pos: e.posStr(fn.Pos())})
		}
		if c.PanicMode == "iff" && panicCond != "" {
			e.addObl(&Obligation{Name: "panics.iff:normal-return", Kind: "panic", Label: c.PanicLabel, Clause: "normal return ⇒ ¬(" + c.PanicSrc + ")", Reach: final.reach, Goal: not(panicCond)})
		}
		// frame
		if c.HasModifies {
			fenv := e.envFor(fr, fr.entry)
			fenv.fr = nil
			fp, err := fenv.footprintOfTargets(append(append([]Expr{}, c.Modifies...), c.HiddenMod...), c.ModWhen)
			if len(c.HiddenMod) > 0 {
				e.trustedClauses = append(e.trustedClauses, "hidden modifies of "+c.Key+": "+strings.Join(c.HiddenSrc, ", "))
			}
			if err != nil {
				e.unsupportedf("modifies: %v", err)
			} else if !fp.all {
				e.frameObligations(e.writeLog, fr.entry, final, fp, "frame:", "modifies "+strings.Join(c.ModSrc, ", "), final.reach)
			}
		}
	} else {
		if len(c.Ensures) > 0 {
			e.unsupportedf("no normal return is reachable; ensures clauses would be vacuous")
		}
	}
	// call-site assertions whose call site was not found
	for _, key := range sortedKeys(c.CallInvariants) {
		if !c.callSeen[key] {
			e.unsupportedf("call-site invariant: no call site %s with an effects() callee in %s", key, fn)
		}
	}
	for name, m := range c.InlinedLoops {
		for n := range m {
			if !c.callSeen["loop:"+name+"#"+fmt.Sprint(n)] {
				e.unsupportedf("loop %d of %s: no such loop is inlined into %s (callee removed, renamed or given a contract?)", n, name, fn)
			}
		}
	}
	for _, key := range sortedKeys(c.CallAsserts) {
		if !c.callSeen[key] {
			e.unsupportedf("call-site assertion: no call site %s in %s (call removed or renumbered?)", key, fn)
		}
	}
	c.callSeen = nil
	// panics
	switch c.PanicMode {
	case "never":
		for _, ps := range e.panics {
			e.obls = append(e.obls, &Obligation{Name: "nopanic:" + ps.Name, Func: e.funcName, Kind: "panic", Label: c.PanicLabel, Clause: "panics never — " + ps.Desc, N: ps.N, Reach: ps.Reach, Goal: "false", Pos: ps.Pos})
		}
	case "only_if", "iff":
		if panicCond != "" {
			for _, ps := range e.panics {
				e.obls = append(e.obls, &Obligation{Name: "panic.only_if:" + ps.Name, Func: e.funcName, Kind: "panic", Label: c.PanicLabel, Clause: "panics only if " + c.PanicSrc + " — " + ps.Desc, N: ps.N, Reach: ps.Reach, Goal: panicCond, Pos: ps.Pos})
			}
		}
	}
	// unique names
	seen := map[string]int{}
	for _, o := range e.obls {
		seen[o.Name]++
		if seen[o.Name] > 1 {
			o.Name = fmt.Sprintf("%s#%d", o.Name, seen[o.Name])
		}
		o.Props = c.Props
	}
	res.Obls = e.obls
	res.Unsupported = dedupe(e.unsupported)
	return res
}

// rederive: the ghost variables defined by `representation` declarations get a fresh value in st that satisfies the
// defining equation in st (a ghost assignment g := \lambda xs. expr(st)): sound because the declarations are
// definitional (checkRepresentations). The variables count as written: the frame clause is checked over them.
func (e *Enc) rederive(db *SpecDB, P *Program, st *State) {
	var reps []*Axiom
	for _, ax := range db.Axioms {
		if ax.RepVar == "" || (ax.PkgPath != "" && P.lookupPkg(ax.PkgPath) == nil) {
			continue
		}
		g, ok := db.GhostVars[ax.RepVar]
		if !ok {
			continue
		}
		sort, _, err := e.resolveTypeExpr(g.T, g.PkgPath, g.Imports)
		if err != nil {
			e.unsupportedf("representation %s: %v", ax.Name, err)
			continue
		}
		e.heapGet(st, "G|"+g.Name, sort)
		reps = append(reps, ax)
	}
	// first every represented variable is havocked, then the definitions are stated (no definition mentions a
	// represented variable, so the order is immaterial)
	for _, ax := range reps {
		e.heapHavoc(st, "G|"+ax.RepVar)
	}
	for _, ax := range reps {
		env := &Env{e: e, vars: map[string]*Val{}, st: st, old: st, pkgPath: ax.PkgPath, imports: ax.Imports}
		t, err := env.evalBool(ax.E)
		if err != nil {
			e.unsupportedf("representation %s: %v", ax.Name, err)
			continue
		}
		e.emit("; rederived " + ax.Name)
		e.assert(t)
	}
}

func maxInt(a, b int) int {
	if a > b {
		return a
	}
	return b
}

func dedupe(xs []string) []string {
	seen := map[string]bool{}
	var out []string
	for _, x := range xs {
		if !seen[x] {
			seen[x] = true
			out = append(out, x)
		}
	}
	return out
}

func resultTypeOfSig(sig *types.Signature) types.Type {
	switch sig.Results().Len() {
	case 0:
		return nil
	case 1:
		return sig.Results().At(0).Type()
	}
	return sig.Results()
}

// frameObligations: every heap component written by the function is unchanged outside the declared footprint
// (objects allocated during the call are exempt).
func (e *Enc) frameObligations(written map[string]bool, entry *State, final *State, fp *footprint, prefix, what, reach string) {
	// a path on which everything was havocked (unknown callee, callee that `modifies everything`) can change heap
	// components this encoding never names: no finite modifies clause covers it
	if hc := havocCondSince(entry, final); hc != "false" {
		e.addObl(&Obligation{Name: prefix + "everything", Kind: "frame", Label: "", Clause: what + " — but a callee on this path may modify everything", Reach: and(reach, hc), Goal: "false"})
	}
	keys := make([]string, 0, len(written))
	for k := range written {
		keys = append(keys, k)
	}
	sort.Strings(keys)
	for _, k := range keys {
		if strings.HasPrefix(k, "RV|") || (fp.whole[k] && fp.wholeCond[k] == "") {
			continue
		}
		if strings.HasPrefix(k, "G|") && e.DB.Allocators[k[2:]] {
			continue // allocator ghost variables are outside frame clauses (they only grow)
		}
		srt, ok := e.heapSort[k]
		if !ok {
			continue
		}
		entryT := e.heapGet(entry, k, srt)
		exitT, ok := final.heap[k]
		if !ok || exitT == entryT {
			continue
		}
		ks, _ := splitArraySort(srt)
		e.declSort(ks)
		sk := e.fresh("frame!idx", ks)
		var conds []string
		for n, i := range fp.idx[k] {
			if n < len(fp.idxCond[k]) && fp.idxCond[k][n] != "" {
				conds = append(conds, not(and(fp.idxCond[k][n], eq(sk, i))))
			} else {
				conds = append(conds, not(eq(sk, i)))
			}
		}
		if fp.whole[k] && fp.wholeCond[k] != "" {
			conds = append(conds, not(fp.wholeCond[k]))
		}
		for _, i := range e.hiddenIdx[k] {
			conds = append(conds, not(eq(sk, i))) // hidden target of a callee: outside every caller's frame
		}
		refIndexed := ks == "Int" && !strings.HasPrefix(k, "G|")
		if strings.HasPrefix(k, "G|") {
			if g, ok := e.DB.GhostVars[k[2:]]; ok && g.T.Kind == "map" && (g.T.K.Kind == "ptr" || g.T.K.Name == "ref") {
				refIndexed = true
			}
		}
		if refIndexed {
			// objects that existed at entry: references 1..alloc (nil = 0 is not an object: a nil slice has no backing
			// cells, a loop frame `contents(s)` evaluated on a still-nil slice havocs nothing that can be read)
			conds = append(conds, "(<= "+sk+" "+entry.alloc+")", "(> "+sk+" 0)")
		}
		goal := implies(and(conds...), eq("(select "+exitT+" "+sk+")", "(select "+entryT+" "+sk+")"))
		e.addObl(&Obligation{Name: prefix + k, Kind: "frame", Label: "", Clause: what + " — " + k + " unchanged elsewhere", Reach: reach, Goal: goal})
	}
}

// havocCond: condition (over the path conditions recorded at joins) under which st was reached through a point
// where everything was havocked.
func havocCond(st *State) string {
	return havocCondMemo(st, map[*State]string{})
}

// havocCondSince: the same, but only for havocs that happened after state `since` (an ancestor of st; nil = function entry).
func havocCondSince(since, st *State) string {
	if since == nil || (since.epoch == 0 && since.mergeOf == nil) {
		return havocCond(st)
	}
	memo := map[*State]string{}
	var rec func(s *State) string
	rec = func(s *State) string {
		if r, ok := memo[s]; ok {
			return r
		}
		r := "true"
		if s.epoch == since.epoch && sameStates(s.mergeOf, since.mergeOf) {
			r = "false"
		} else if s.mergeOf != nil {
			var cs []string
			for i, p := range s.mergeOf {
				cs = append(cs, and(s.mergeConds[i], rec(p)))
			}
			r = or(cs...)
		}
		memo[s] = r
		return r
	}
	return rec(st)
}

func sameStates(a, b []*State) bool {
	if len(a) != len(b) {
		return false
	}
	for i := range a {
		if a[i] != b[i] {
			return false
		}
	}
	return true
}

func havocCondMemo(st *State, memo map[*State]string) string {
	if r, ok := memo[st]; ok {
		return r
	}
	r := "false"
	if st.mergeOf != nil {
		var cs []string
		for i, p := range st.mergeOf {
			cs = append(cs, and(st.mergeConds[i], havocCondMemo(p, memo)))
		}
		r = or(cs...)
	} else if st.epoch > 0 {
		r = "true"
	}
	memo[st] = r
	return r
}

// axiomLine: the assert lines [lo,hi) of e.out state an axiom about the ghost symbols syms; the axiom is left out of an
// obligation's script when none of these symbols occurs anywhere else in that script (it then constrains nothing the
// obligation talks about: leaving it out is sound and complete, and keeps the quantifier load of the solvers small).
type axiomLine struct {
	lo, hi int
	syms   []string
}

func ghostSymbols(t string) []string {
	seen := map[string]bool{}
	var out []string
	for i := 0; i < len(t); i++ {
		if t[i] != '|' {
			continue
		}
		j := strings.IndexByte(t[i+1:], '|')
		if j < 0 {
			break
		}
		name := t[i : i+j+2]
		i += j + 1
		if strings.HasPrefix(name, "|G!") || strings.HasPrefix(name, "|ghost!") || strings.HasPrefix(name, "|pure!") {
			// ghost vars are versioned (G!x@0, G!x@17): the base name identifies the component
			base := name
			if k := strings.LastIndex(name, "@"); k > 0 && strings.HasPrefix(name, "|G!") {
				base = name[:k]
			}
			if !seen[base] {
				seen[base] = true
				out = append(out, base)
			}
		}
	}
	return out
}

// fieldKeys: heap keys (and sorts) of field `name` of struct type te.
func (e *Enc) fieldKeys(te *TypeExpr, name, pkgPath string, imports map[string]string) ([][2]string, error) {
	gt, err := e.resolveGoType(te, pkgPath, imports)
	if err != nil {
		return nil, err
	}
	stt, ok := gt.Underlying().(*types.Struct)
	if !ok {
		return nil, fmt.Errorf("fieldof: %s is not a struct type", typeStr(gt))
	}
	path, ft, ok := findField(stt, name)
	if !ok {
		return nil, fmt.Errorf("fieldof: no field %s in %s", name, typeStr(gt))
	}
	var out [][2]string
	for _, lf := range e.TI.shape(ft) {
		k, srt := locKeySort(&Loc{Kind: 'F', Key: typeStr(gt), Path: path}, lf)
		out = append(out, [2]string{k, srt})
	}
	return out, nil
}

func (fp *footprint) setWhole(k string) {
	if fp.whole[k] && fp.wholeCond[k] == "" {
		return // already unconditionally in the footprint
	}
	fp.whole[k] = true
	if fp.curCond == "" {
		fp.wholeCond[k] = ""
	} else if c, ok := fp.wholeCond[k]; ok && c != "" {
		fp.wholeCond[k] = or(c, fp.curCond)
	} else {
		fp.wholeCond[k] = fp.curCond
	}
}
