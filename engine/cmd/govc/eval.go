package main

import (
	"fmt"
	"go/ast"
	"go/constant"
	"go/types"
	"math/big"
	"strings"

	"golang.org/x/tools/go/ssa"
)

type Env struct {
	e       *Enc
	vars    map[string]*Val
	st      *State
	old     *State
	fr      *Frame
	pkgPath string
	imports map[string]string
	loop    *loopInfo
	depth   int
	// captured variables of a closure under contract: name -> pointer to the variable's cell (read in the state the
	// expression is evaluated in, so old(x) is the entry value)
	cells map[string]*Val
	// frame of the enclosing function while evaluating inside old(): only for expressions whose TYPE is all that matters
	typeFr *Frame
	// outer: clauses of a "loop N of F" block — names that are not locals of the inlined frame env.fr resolve in the
	// enclosing frames of the inline chain (innermost first)
	outer bool
}

func (env *Env) with(st *State) *Env {
	n := *env
	n.st = st
	return &n
}

// envFor builds the environment for clauses evaluated inside fr (loop invariants): names resolve to SSA values.
func (e *Enc) envFor(fr *Frame, st *State) *Env {
	env := &Env{e: e, vars: map[string]*Val{}, st: st, old: fr.entry, fr: fr}
	c := e.contractOfFn(fr.fn)
	if c != nil {
		env.pkgPath, env.imports = c.PkgPath, c.Imports
		// contract-declared parameter names
		for k, v := range e.bindParams(c, fr.args, fr.fn.Signature) {
			env.vars[k] = v
		}
	} else if fr.fn.Pkg != nil {
		env.pkgPath = fr.fn.Pkg.Pkg.Path()
	}
	if env.old == nil {
		env.old = st
	}
	for _, fv := range fr.fn.FreeVars {
		if v := fr.vals[fv]; v != nil && isPointer(fv.Type()) && v.Loc == nil && v.Clos == nil {
			if env.cells == nil {
				env.cells = map[string]*Val{}
			}
			env.cells[fv.Name()] = v
		}
	}
	return env
}

func mathVal(t, sort string) *Val { return &Val{L: []Sc{{t, sort}}} }

func (env *Env) evalBool(x Expr) (string, error) {
	v, err := env.eval(x)
	if err != nil {
		return "", err
	}
	if len(v.L) != 1 || v.L[0].S != "Bool" {
		return "", fmt.Errorf("expression %s is not boolean", exprString(x))
	}
	return v.L[0].T, nil
}

func (env *Env) evalInt(x Expr) (string, error) {
	v, err := env.eval(x)
	if err != nil {
		return "", err
	}
	if len(v.L) != 1 || v.L[0].S != "Int" {
		return "", fmt.Errorf("expression %s is not an integer (sort %v)", exprString(x), sortsOf(v))
	}
	return v.L[0].T, nil
}

func sortsOf(v *Val) []string {
	var s []string
	for _, l := range v.L {
		s = append(s, l.S)
	}
	return s
}

func (env *Env) resolveType(te *TypeExpr) (sort string, gt types.Type, err error) {
	return env.e.resolveTypeExpr(te, env.pkgPath, env.imports)
}

func (e *Enc) resolveTypeExpr(te *TypeExpr, pkgPath string, imports map[string]string) (sort string, gt types.Type, err error) {
	switch te.Kind {
	case "name":
		switch te.Name {
		case "int", "ref":
			return "Int", nil, nil
		case "bool":
			return "Bool", nil, nil
		case "bytes":
			return "Bytes", nil, nil
		case "content":
			return "Content", nil, nil
		}
		o, err := e.P.resolveNamed(te.Name, pkgPath, imports)
		if err != nil {
			return "", nil, err
		}
		tn, ok := o.(*types.TypeName)
		if !ok {
			return "", nil, fmt.Errorf("%s is not a type", te.Name)
		}
		sh := e.TI.shape(tn.Type())
		if len(sh) != 1 {
			return "", tn.Type(), fmt.Errorf("type %s is not a single scalar (has %d leaves); declare it opaque or use a pointer", te.Name, len(sh))
		}
		return sh[0].Sort, tn.Type(), nil
	case "ptr":
		_, gt, err := e.resolveTypeExpr(te.V, pkgPath, imports)
		if err != nil && gt == nil {
			return "", nil, err
		}
		if gt == nil {
			return "Int", nil, nil
		}
		return "Int", types.NewPointer(gt), nil
	case "slice":
		_, gt, err := e.resolveTypeExpr(te.V, pkgPath, imports)
		if gt == nil {
			return "", nil, fmt.Errorf("bad slice element type: %v", err)
		}
		return "", types.NewSlice(gt), fmt.Errorf("slice types are not scalar")
	case "map":
		ks, _, err := e.resolveTypeExpr(te.K, pkgPath, imports)
		if err != nil {
			return "", nil, err
		}
		vs, _, err := e.resolveTypeExpr(te.V, pkgPath, imports)
		if err != nil {
			return "", nil, err
		}
		return "(Array " + ks + " " + vs + ")", nil, nil
	case "set":
		ks, _, err := e.resolveTypeExpr(te.K, pkgPath, imports)
		if err != nil {
			return "", nil, err
		}
		return "(Array " + ks + " Bool)", nil, nil
	}
	return "", nil, fmt.Errorf("bad type expression")
}

// full Go type (possibly multi-leaf) of a type expression
func (e *Enc) resolveGoType(te *TypeExpr, pkgPath string, imports map[string]string) (types.Type, error) {
	switch te.Kind {
	case "name":
		o, err := e.P.resolveNamed(te.Name, pkgPath, imports)
		if err != nil {
			return nil, err
		}
		tn, ok := o.(*types.TypeName)
		if !ok {
			return nil, fmt.Errorf("%s is not a type", te.Name)
		}
		return tn.Type(), nil
	case "ptr":
		t, err := e.resolveGoType(te.V, pkgPath, imports)
		if err != nil {
			return nil, err
		}
		return types.NewPointer(t), nil
	case "slice":
		t, err := e.resolveGoType(te.V, pkgPath, imports)
		if err != nil {
			return nil, err
		}
		return types.NewSlice(t), nil
	}
	return nil, fmt.Errorf("not a Go type: %s", te.String())
}

func (env *Env) ghostVarTerm(g *GhostVar, st *State) (*Val, error) {
	sort, gt, err := env.e.resolveTypeExpr(g.T, g.PkgPath, g.Imports)
	if err != nil {
		return nil, fmt.Errorf("ghost var %s: %v", g.Name, err)
	}
	t := env.e.heapGet(st, "G|"+g.Name, sort)
	return &Val{T: gt, L: []Sc{{t, sort}}}, nil
}

func (env *Env) eval(x Expr) (*Val, error) {
	e := env.e
	switch x := x.(type) {
	case *valExpr:
		return x.v, nil
	case *ENum:
		return mathVal(smtInt(x.V), "Int"), nil
	case *EBool:
		if x.V {
			return mathVal("true", "Bool"), nil
		}
		return mathVal("false", "Bool"), nil
	case *EStr:
		return &Val{T: types.Typ[types.String], L: []Sc{{e.strLit(x.V), "Str"}}}, nil
	case *EIdent:
		return env.evalIdent(x.Name)
	case *EOld:
		n := *env
		n.st = env.old
		n.fr = nil // the entry state knows parameters (their entry values) but no locals
		if env.fr != nil {
			n.typeFr = env.fr // ... except where only the TYPE of a local-typed expression is needed (keysAt)
		}
		return n.eval(x.X)
	case *EUn:
		v, err := env.eval(x.X)
		if err != nil {
			return nil, err
		}
		switch x.Op {
		case "!":
			if len(v.L) != 1 || v.L[0].S != "Bool" {
				return nil, fmt.Errorf("! on non-boolean %s", exprString(x.X))
			}
			return mathVal(not(v.L[0].T), "Bool"), nil
		case "-":
			if len(v.L) != 1 || v.L[0].S != "Int" {
				return nil, fmt.Errorf("- on non-integer %s", exprString(x.X))
			}
			return mathVal("(- "+v.L[0].T+")", "Int"), nil
		case "*":
			if v.Loc == nil && (v.T == nil || !isPointer(v.T)) {
				return nil, fmt.Errorf("* on non-pointer %s", exprString(x.X))
			}
			loc := e.ptrLoc(v)
			if loc.Kind == 'A' {
				return e.loadArray(env.st, loc), nil
			}
			return e.loadLoc(env.st, loc), nil
		}
	case *EBin:
		return env.evalBin(x)
	case *ECond:
		c, err := env.evalBool(x.C)
		if err != nil {
			return nil, err
		}
		a, err := env.eval(x.A)
		if err != nil {
			return nil, err
		}
		b, err := env.eval(x.B)
		if err != nil {
			return nil, err
		}
		if len(a.L) != len(b.L) {
			return nil, fmt.Errorf("branches of ?: have different shapes in %s", exprString(x))
		}
		out := &Val{T: a.T}
		for i := range a.L {
			out.L = append(out.L, Sc{ite(c, a.L[i].T, b.L[i].T), a.L[i].S})
		}
		return out, nil
	case *ESel:
		return env.evalSel(x)
	case *EIndex:
		return env.evalIndex(x)
	case *EUpd:
		a, err := env.eval(x.X)
		if err != nil {
			return nil, err
		}
		i, err := env.eval(x.I)
		if err != nil {
			return nil, err
		}
		v, err := env.eval(x.V)
		if err != nil {
			return nil, err
		}
		if len(a.L) != 1 || !strings.HasPrefix(a.L[0].S, "(Array ") || len(i.L) != 1 || len(v.L) != 1 {
			return nil, fmt.Errorf("bad array update %s", exprString(x))
		}
		return &Val{L: []Sc{{"(store " + a.L[0].T + " " + i.L[0].T + " " + v.L[0].T + ")", a.L[0].S}}}, nil
	case *ESlice:
		a, err := env.eval(x.X)
		if err != nil {
			return nil, err
		}
		if a.T == nil || len(a.L) != 4 {
			return nil, fmt.Errorf("slice expression on a non-slice value %s", exprString(x.X))
		}
		if _, ok := a.T.Underlying().(*types.Slice); !ok {
			return nil, fmt.Errorf("slice expression on a non-slice value %s", exprString(x.X))
		}
		lo, hi := "0", a.L[2].T
		if x.Lo != nil {
			if lo, err = env.evalInt(x.Lo); err != nil {
				return nil, err
			}
		}
		if x.Hi != nil {
			if hi, err = env.evalInt(x.Hi); err != nil {
				return nil, err
			}
		}
		return &Val{T: a.T, L: []Sc{a.L[0], {addT(a.L[1].T, lo), "Int"}, {"(- " + hi + " " + lo + ")", "Int"}, {"(- " + a.L[3].T + " " + lo + ")", "Int"}}}, nil
	case *EQuant:
		n := *env
		n.vars = copyVals(env.vars)
		var binders, qnames []string
		for _, qv := range x.Vars {
			sort, gt, err := env.resolveType(qv.T)
			if err != nil {
				return nil, err
			}
			e.declSort(sort)
			e.nfresh++
			name := sym(fmt.Sprintf("q!%s!%d", qv.Name, e.nfresh))
			binders = append(binders, "("+name+" "+sort+")")
			qnames = append(qnames, name)
			n.vars[qv.Name] = &Val{T: gt, L: []Sc{{name, sort}}}
		}
		mark := len(e.out)
		nq := len(e.qbound)
		for _, v := range x.Vars {
			e.qbound = append(e.qbound, n.vars[v.Name].L[0].T)
			e.qscope = append(e.qscope, [2]string{n.vars[v.Name].L[0].T, n.vars[v.Name].L[0].S})
		}
		b, err := n.evalBool(x.Body)
		// explicit triggers (forall x T :: {t1, t2} {t3} body) are evaluated in the scope of the bound variables
		var explicitPats string
		var patErr error
		if err == nil {
			for _, grp := range x.Pats {
				var ts []string
				for _, pe := range grp {
					pv, perr := n.eval(pe)
					if perr != nil {
						patErr = fmt.Errorf("trigger %s: %v", exprString(pe), perr)
						break
					}
					if len(pv.L) != 1 {
						patErr = fmt.Errorf("trigger %s is not a scalar term", exprString(pe))
						break
					}
					ts = append(ts, pv.L[0].T)
				}
				explicitPats += " :pattern (" + strings.Join(ts, " ") + ")"
			}
		}
		e.qbound = e.qbound[:nq]
		e.qscope = e.qscope[:len(e.qscope)-len(x.Vars)]
		if err != nil {
			return nil, err
		}
		if patErr != nil {
			return nil, patErr
		}
		// side facts emitted while evaluating the body (typing facts of memory reads, facts of pure calls) may mention
		// the bound variables: they hold for every value of them, so they are universally closed here
		seenFact := map[string]bool{}
		kept := e.out[:mark]
		for i := mark; i < len(e.out); i++ {
			ln := e.out[i]
			if strings.HasPrefix(ln, "(assert ") {
				// (facts that mention a bound variable were universally closed by Enc.assert)
				// the same fact is produced once per occurrence of a sub-expression, and again by every other
				// quantifier over the same sub-expression: keep one copy (bound variable names normalised)
				if strings.HasPrefix(ln, "(assert (forall ") {
					key := ln
					for bi, qv := range x.Vars {
						key = strings.ReplaceAll(key, n.vars[qv.Name].L[0].T, fmt.Sprintf("?%d", bi))
					}
					if seenFact[key] || (e.closedFacts[key] && e.dry == 0) {
						continue
					}
					seenFact[key] = true
					if e.dry == 0 {
						if e.closedFacts == nil {
							e.closedFacts = map[string]bool{}
						}
						e.closedFacts[key] = true
					}
				}
			}
			kept = append(kept, ln)
		}
		e.out = kept
		q := "exists"
		if x.Forall {
			q = "forall"
		}
		if explicitPats != "" {
			b = "(! " + b + explicitPats + ")"
		} else if pats := selectPatterns(b, qnames); len(pats) > 0 && x.Forall {
			var ps []string
			for _, pt := range pats {
				ps = append(ps, ":pattern ("+pt+")")
			}
			return mathVal("("+q+" ("+strings.Join(binders, " ")+") (! "+b+" "+strings.Join(ps, " ")+"))", "Bool"), nil
		}
		return mathVal("("+q+" ("+strings.Join(binders, " ")+") "+b+")", "Bool"), nil
	case *ECall:
		return env.evalCall(x)
	case *ETypeLit:
		gt, err := e.resolveGoType(x.T, env.pkgPath, env.imports)
		if err != nil {
			return nil, err
		}
		return mathVal(fmt.Sprint(e.TI.tagOf(gt)), "Int"), nil
	}
	return nil, fmt.Errorf("cannot evaluate %s", exprString(x))
}

func isPointer(t types.Type) bool {
	_, ok := t.Underlying().(*types.Pointer)
	return ok
}

func (env *Env) evalIdent(name string) (*Val, error) {
	e := env.e
	if env.fr != nil {
		// inside a function body (loop invariants, call-site assertions) a parameter that the body reassigns denotes its
		// CURRENT value: the phi node carrying the variable's name; old(x) is the entry value
		if _, isParam := env.vars[name]; isParam {
			var found *Val
			n := 0
			for _, b := range env.fr.fn.Blocks {
				for _, in := range b.Instrs {
					if phi, ok := in.(*ssa.Phi); ok && phi.Comment == name {
						if v, ok := env.fr.vals[phi]; ok {
							found = v
							n++
						}
					}
				}
			}
			if n == 1 {
				return found, nil
			}
			if n > 1 {
				if v := env.lookupSSA(name); v != nil {
					return v, nil
				}
			}
		}
	}
	if v, ok := env.vars[name]; ok {
		return v, nil
	}
	if name == "nil" {
		return mathVal("0", "Int"), nil
	}
	if c, ok := env.cells[name]; ok {
		return e.loadLoc(env.st, e.ptrLoc(c)), nil
	}
	if name == "visited" && env.fr != nil && env.loop != nil {
		if v := env.lookupSSA(name); v != nil {
			return v, nil
		}
		return env.visitedSet(0)
	}
	if env.fr != nil {
		if v := env.lookupSSA(name); v != nil {
			return v, nil
		}
	}
	if g, ok := e.DB.GhostVars[name]; ok {
		return env.ghostVarTerm(g, env.st)
	}
	// package-level Go object
	if o, err := e.P.resolveNamed(name, env.pkgPath, env.imports); err == nil {
		return env.goObject(o)
	}
	return nil, fmt.Errorf("unknown identifier %q", name)
}

func (env *Env) goObject(o types.Object) (*Val, error) {
	e := env.e
	switch o := o.(type) {
	case *types.Const:
		switch o.Val().Kind() {
		case constant.Int:
			iv, _ := new(big.Int).SetString(o.Val().ExactString(), 10)
			return &Val{T: o.Type(), L: []Sc{{smtInt(iv), "Int"}}}, nil
		case constant.Bool:
			return mathVal(fmt.Sprint(constant.BoolVal(o.Val())), "Bool"), nil
		case constant.String:
			return &Val{T: o.Type(), L: []Sc{{e.strLit(constant.StringVal(o.Val())), "Str"}}}, nil
		}
	case *types.Var:
		// package-level variable: read through its global cell
		if sp := e.P.ByTyp[o.Pkg()]; sp != nil {
			if g, ok := sp.Members[o.Name()].(*ssa.Global); ok {
				p := &Val{T: g.Type(), L: []Sc{{e.globalRef(g), "Int"}}}
				loc := e.ptrLoc(p)
				if loc.Kind == 'A' {
					return e.loadArray(env.st, loc), nil
				}
				return e.loadLoc(env.st, loc), nil
			}
		}
	case *types.Nil:
		return mathVal("0", "Int"), nil
	}
	return nil, fmt.Errorf("cannot use %s in a specification", o.Name())
}

// lookupSSA resolves a source-level variable name inside env.fr (and, for env.outer, the frames it is inlined into).
func (env *Env) lookupSSA(name string) *Val {
	if v := env.lookupSSAIn(env.fr, name); v != nil || !env.outer {
		return v
	}
	for f := env.fr.parent; f != nil; f = f.parent {
		if v := env.lookupSSAIn(f, name); v != nil {
			return v
		}
	}
	return nil
}

func (env *Env) lookupSSAIn(fr *Frame, name string) *Val {
	e := env.e
	for _, p := range fr.fn.Params {
		if p.Name() == name {
			return fr.vals[p]
		}
	}
	for _, fv := range fr.fn.FreeVars {
		if fv.Name() == name {
			v := fr.vals[fv]
			if v != nil && isPointer(fv.Type()) {
				// captured variables are pointers to cells
				return e.loadLoc(env.st, e.ptrLoc(v))
			}
			return v
		}
	}
	// phi nodes named after the variable; prefer headers of loops (innermost first = highest ordinal containing current)
	var cands []*ssa.Phi
	for _, b := range fr.fn.Blocks {
		for _, in := range b.Instrs {
			if phi, ok := in.(*ssa.Phi); ok && phi.Comment == name {
				cands = append(cands, phi)
			}
		}
	}
	if env.loop != nil {
		for _, phi := range cands {
			if phi.Block() == env.loop.header {
				if v, ok := fr.vals[phi]; ok {
					return v
				}
			}
		}
	}
	// debug refs
	var vals []ssa.Value
	seen := map[ssa.Value]bool{}
	var addrOf ssa.Value
	for _, b := range fr.fn.Blocks {
		for _, in := range b.Instrs {
			if d, ok := in.(*ssa.DebugRef); ok {
				if id, ok := d.Expr.(*ast.Ident); ok && id.Name == name {
					if fv, ok := d.Object().(*types.Var); ok && fv.IsField() {
						continue // the field name of a selector expression x.name, not a variable called name
					}
					if d.IsAddr {
						addrOf = d.X
						continue
					}
					if !seen[d.X] {
						seen[d.X] = true
						vals = append(vals, d.X)
					}
				}
			}
		}
	}
	if addrOf != nil {
		if p, ok := fr.vals[addrOf]; ok {
			return e.loadLoc(env.st, e.ptrLoc(p))
		}
	}
	// a variable that lives in memory (address taken / captured by a closure): its current value is the cell's content
	for _, b := range fr.fn.Blocks {
		for _, in := range b.Instrs {
			if a, ok := in.(*ssa.Alloc); ok && a.Comment == name {
				if p, ok := fr.vals[a]; ok {
					return e.loadLoc(env.st, e.ptrLoc(p))
				}
			}
		}
	}
	if len(cands) == 1 {
		if v, ok := fr.vals[cands[0]]; ok {
			return v
		}
	}
	if len(vals) == 1 {
		if v, ok := fr.vals[vals[0]]; ok {
			return v
		}
		if c, ok := vals[0].(*ssa.Const); ok {
			return e.constVal(c)
		}
	}
	// several SSA values carry this name: take the one defined latest that is already encoded and is a phi at a loop header
	for i := len(cands) - 1; i >= 0; i-- {
		if v, ok := fr.vals[cands[i]]; ok {
			return v
		}
	}
	for _, b := range fr.fn.Blocks {
		for _, in := range b.Instrs {
			if a, ok := in.(*ssa.Alloc); ok && a.Comment == name {
				if p, ok := fr.vals[a]; ok {
					return e.loadLoc(env.st, e.ptrLoc(p))
				}
			}
		}
	}
	return nil
}

func (env *Env) evalBin(x *EBin) (*Val, error) {
	switch x.Op {
	case "&&", "||", "==>", "<==>":
		a, err := env.evalBool(x.X)
		if err != nil {
			return nil, err
		}
		b, err := env.evalBool(x.Y)
		if err != nil {
			return nil, err
		}
		switch x.Op {
		case "&&":
			return mathVal(and(a, b), "Bool"), nil
		case "||":
			return mathVal(or(a, b), "Bool"), nil
		case "==>":
			return mathVal(implies(a, b), "Bool"), nil
		default:
			return mathVal("(= "+a+" "+b+")", "Bool"), nil
		}
	case "in":
		k, err := env.eval(x.X)
		if err != nil {
			return nil, err
		}
		m, err := env.eval(x.Y)
		if err != nil {
			return nil, err
		}
		if len(k.L) != 1 {
			return nil, fmt.Errorf("composite key in %s", exprString(x))
		}
		if m.T != nil {
			if _, ok := m.T.Underlying().(*types.Map); ok && len(m.L) == 1 {
				_, dk, ds, _, ok := env.e.mapKeys(m.T)
				if !ok {
					return nil, fmt.Errorf("map with composite key")
				}
				dom := env.e.heapGet(env.st, dk, ds)
				return mathVal("(and (not (= "+m.L[0].T+" 0)) (select (select "+dom+" "+m.L[0].T+") "+k.L[0].T+"))", "Bool"), nil
			}
		}
		if len(m.L) == 1 && strings.HasPrefix(m.L[0].S, "(Array ") {
			return mathVal("(select "+m.L[0].T+" "+k.L[0].T+")", "Bool"), nil
		}
		return nil, fmt.Errorf("'in' needs a map or set: %s", exprString(x))
	}
	a, err := env.eval(x.X)
	if err != nil {
		return nil, err
	}
	b, err := env.eval(x.Y)
	if err != nil {
		return nil, err
	}
	switch x.Op {
	case "==", "!=":
		t, err := env.specEqual(a, b)
		if err != nil {
			return nil, fmt.Errorf("%v in %s", err, exprString(x))
		}
		if x.Op == "!=" {
			t = not(t)
		}
		return mathVal(t, "Bool"), nil
	}
	if len(a.L) != 1 || len(b.L) != 1 || a.L[0].S != "Int" || b.L[0].S != "Int" {
		return nil, fmt.Errorf("arithmetic on non-integers in %s (sorts %v, %v)", exprString(x), sortsOf(a), sortsOf(b))
	}
	p, q := a.L[0].T, b.L[0].T
	switch x.Op {
	case "<", "<=", ">", ">=":
		return mathVal("("+x.Op+" "+p+" "+q+")", "Bool"), nil
	case "+", "-", "*":
		return mathVal("("+x.Op+" "+p+" "+q+")", "Int"), nil
	case "/":
		return mathVal("(div "+p+" "+q+")", "Int"), nil
	case "%":
		return mathVal("(mod "+p+" "+q+")", "Int"), nil
	case "<<":
		if n, ok := isConstTerm(q); ok && n.IsInt64() && n.Int64() <= 4096 {
			if m, ok := isConstTerm(p); ok {
				return mathVal(smtInt(new(big.Int).Lsh(m, uint(n.Int64()))), "Int"), nil
			}
			return mathVal("(* "+p+" "+pow2(n.Int64()).String()+")", "Int"), nil
		}
		return nil, fmt.Errorf("<< needs a constant shift")
	}
	return nil, fmt.Errorf("unknown operator %s", x.Op)
}

func (env *Env) specEqual(a, b *Val) (string, error) {
	// an interior pointer (&x.f, &a[i]) compared with nil: never nil, unless it is the nullable merge of nil with interior pointers
	isNilConst := func(v *Val) bool {
		return v.Loc == nil && v.Clos == nil && v.T == nil && len(v.L) == 1 && v.L[0].T == "0"
	}
	if a.Loc != nil && a.Clos == nil && isNilConst(b) {
		if a.Loc.Nullable {
			return eq(a.Loc.Ref, "0"), nil
		}
		return "false", nil
	}
	if b.Loc != nil && b.Clos == nil && isNilConst(a) {
		if b.Loc.Nullable {
			return eq(b.Loc.Ref, "0"), nil
		}
		return "false", nil
	}
	if a.Loc != nil || b.Loc != nil || a.Clos != nil || b.Clos != nil {
		return "", fmt.Errorf("cannot compare interior pointers or closures")
	}
	// nil against interface / slice / anything ref-like
	isNil := func(v *Val) bool { return v.T == nil && len(v.L) == 1 && v.L[0].T == "0" }
	if isNil(b) && len(a.L) > 1 {
		return eq(a.L[0].T, "0"), nil
	}
	if isNil(a) && len(b.L) > 1 {
		return eq(b.L[0].T, "0"), nil
	}
	if len(a.L) != len(b.L) {
		return "", fmt.Errorf("comparison of differently shaped values (%d vs %d leaves)", len(a.L), len(b.L))
	}
	var cs []string
	for i := range a.L {
		if a.L[i].S != b.L[i].S {
			return "", fmt.Errorf("comparison of sorts %s and %s", a.L[i].S, b.L[i].S)
		}
		cs = append(cs, eq(a.L[i].T, b.L[i].T))
	}
	return and(cs...), nil
}

func (env *Env) evalSel(x *ESel) (*Val, error) {
	e := env.e
	// result.N / import-qualified object
	if id, ok := x.X.(*EIdent); ok {
		if v, ok := env.vars[id.Name+"."+x.Name]; ok {
			return v, nil
		}
		if _, isVar := env.vars[id.Name]; !isVar {
			if _, isImp := env.imports[id.Name]; isImp {
				if env.fr == nil || env.lookupSSA(id.Name) == nil {
					o, err := e.P.resolveNamed(id.Name+"."+x.Name, env.pkgPath, env.imports)
					if err != nil {
						return nil, err
					}
					return env.goObject(o)
				}
			}
		}
	}
	// s[i].f / s[i].f.g on a slice of structs: load only the selected field (loading the whole element would emit the
	// typing facts of every leaf of the struct)
	if loc := env.elemFieldLoc(x); loc != nil {
		if loc.Kind == 'A' {
			return e.loadArray(env.st, loc), nil
		}
		return e.loadLoc(env.st, loc), nil
	}
	v, err := env.eval(x.X)
	if err != nil {
		return nil, err
	}
	if v.T == nil && v.Loc == nil {
		return nil, fmt.Errorf("field %s of a mathematical value in %s", x.Name, exprString(x))
	}
	// automatic dereference
	if v.Loc != nil || isPointer(v.T) {
		loc := e.ptrLoc(v)
		stt, ok := loc.T.Underlying().(*types.Struct)
		if !ok || loc.Kind == 'P' {
			return nil, fmt.Errorf("%s is not a pointer to a (transparent) struct in %s", exprString(x.X), exprString(x))
		}
		path, ft, ok := findField(stt, x.Name)
		if !ok {
			return nil, fmt.Errorf("no field %s in %s", x.Name, typeStr(loc.T))
		}
		nl := *loc
		nl.Path = loc.Path + path
		nl.T = ft
		return e.loadLoc(env.st, &nl), nil
	}
	if stt, ok := v.T.Underlying().(*types.Struct); ok {
		if _, opq := e.TI.opaqueSort(v.T); opq {
			return nil, fmt.Errorf("field %s of opaque type %s", x.Name, typeStr(v.T))
		}
		for i := 0; i < stt.NumFields(); i++ {
			if stt.Field(i).Name() == x.Name {
				lo, hi := e.TI.fieldRange(stt, i)
				return &Val{T: stt.Field(i).Type(), L: v.L[lo:hi]}, nil
			}
		}
		// promoted through embedded value structs
		for i := 0; i < stt.NumFields(); i++ {
			f := stt.Field(i)
			if f.Embedded() {
				if _, ok := f.Type().Underlying().(*types.Struct); ok {
					lo, hi := e.TI.fieldRange(stt, i)
					sub := &ESel{X: &valExpr{&Val{T: f.Type(), L: v.L[lo:hi]}}, Name: x.Name}
					if r, err := env.evalSel(sub); err == nil {
						return r, nil
					}
				}
			}
		}
		return nil, fmt.Errorf("no field %s in %s", x.Name, typeStr(v.T))
	}
	return nil, fmt.Errorf("cannot select %s from %s", x.Name, typeStr(v.T))
}

// elemFieldLoc: the location of x = s[i].f1...fn when s is a slice whose elements are transparent structs (nil otherwise).
func (env *Env) elemFieldLoc(x *ESel) *Loc {
	e := env.e
	var names []string
	var cur Expr = x
	for {
		sel, ok := cur.(*ESel)
		if !ok {
			break
		}
		names = append([]string{sel.Name}, names...)
		cur = sel.X
	}
	ix, ok := cur.(*EIndex)
	if !ok {
		return nil
	}
	a, err := env.eval(ix.X)
	if err != nil || a.T == nil || len(a.L) != 4 {
		return nil
	}
	sl, ok := a.T.Underlying().(*types.Slice)
	if !ok {
		return nil
	}
	if _, opq := e.TI.opaqueSort(sl.Elem()); opq {
		return nil
	}
	t := sl.Elem()
	path := ""
	for _, n := range names {
		stt, ok := t.Underlying().(*types.Struct)
		if !ok {
			return nil
		}
		if _, opq := e.TI.opaqueSort(t); opq {
			return nil
		}
		p, ft, ok := findField(stt, n)
		if !ok {
			return nil
		}
		path += p
		t = ft
	}
	i, err := env.eval(ix.I)
	if err != nil || len(i.L) != 1 || i.L[0].S != "Int" {
		return nil
	}
	return &Loc{Kind: 'S', Key: typeStr(sl.Elem()), Ref: a.L[0].T, Idx: e.elemIdx(a.L[1].T, i.L[0].T), Path: path, T: t}
}

// valExpr wraps an already evaluated value as an expression.
type valExpr struct{ v *Val }

func findField(stt *types.Struct, name string) (string, types.Type, bool) {
	for i := 0; i < stt.NumFields(); i++ {
		if stt.Field(i).Name() == name {
			return "." + name, stt.Field(i).Type(), true
		}
	}
	for i := 0; i < stt.NumFields(); i++ {
		f := stt.Field(i)
		if f.Embedded() {
			if s2, ok := f.Type().Underlying().(*types.Struct); ok {
				if p, t, ok := findField(s2, name); ok {
					return "." + f.Name() + p, t, true
				}
			}
		}
	}
	return "", nil, false
}

func (env *Env) evalIndex(x *EIndex) (*Val, error) {
	e := env.e
	a, err := env.eval(x.X)
	if err != nil {
		return nil, err
	}
	i, err := env.eval(x.I)
	if err != nil {
		return nil, err
	}
	if len(i.L) != 1 {
		return nil, fmt.Errorf("composite index in %s", exprString(x))
	}
	it := i.L[0].T
	if a.T != nil {
		switch u := a.T.Underlying().(type) {
		case *types.Slice:
			if len(a.L) == 4 {
				loc := &Loc{Kind: 'S', Key: typeStr(u.Elem()), Ref: a.L[0].T, Idx: e.elemIdx(a.L[1].T, it), T: u.Elem()}
				return e.loadLoc(env.st, loc), nil
			}
		case *types.Map:
			if len(a.L) == 1 {
				ksort, dk, ds, vleaves, ok := e.mapKeys(a.T)
				if !ok {
					return nil, fmt.Errorf("map with composite key")
				}
				dom := e.heapGet(env.st, dk, ds)
				present := "(and (not (= " + a.L[0].T + " 0)) (select (select " + dom + " " + a.L[0].T + ") " + it + "))"
				out := &Val{T: u.Elem()}
				for _, lf := range vleaves {
					k, s := mapValKey(a.T, lf, ksort)
					h := e.heapGet(env.st, k, s)
					t := "(select (select " + h + " " + a.L[0].T + ") " + it + ")"
					e.typeAssume(env.st, lf, t)
					e.entryRefFact(k, s, lf, a.L[0].T, it)
					out.L = append(out.L, Sc{ite(present, t, e.zero(lf.Sort)), lf.Sort})
				}
				return out, nil
			}
		case *types.Array:
			if len(a.L) == 1 && strings.HasPrefix(a.L[0].S, "(Array ") {
				_, vs := splitArraySort(a.L[0].S)
				return &Val{T: u.Elem(), L: []Sc{{"(select " + a.L[0].T + " " + it + ")", vs}}}, nil
			}
		case *types.Basic:
			if u.Info()&types.IsString != 0 {
				f := e.declFun("strat", []string{"Str", "Int"}, "Int")
				return mathVal("("+f+" "+a.L[0].T+" "+it+")", "Int"), nil
			}
		}
	}
	if len(a.L) == 1 && strings.HasPrefix(a.L[0].S, "(Array ") {
		ks, vs := splitArraySort(a.L[0].S)
		if ks != i.L[0].S {
			return nil, fmt.Errorf("index sort %s does not match array key sort %s in %s", i.L[0].S, ks, exprString(x))
		}
		return &Val{L: []Sc{{"(select " + a.L[0].T + " " + it + ")", vs}}}, nil
	}
	return nil, fmt.Errorf("cannot index %s", exprString(x.X))
}

func (env *Env) evalArgs(args []Expr) ([]*Val, error) {
	var out []*Val
	for _, a := range args {
		v, err := env.eval(a)
		if err != nil {
			return nil, err
		}
		out = append(out, v)
	}
	return out, nil
}

func (env *Env) evalCall(x *ECall) (*Val, error) {
	e := env.e
	if id, ok := x.Fun.(*EIdent); ok {
		switch id.Name {
		case "len":
			if len(x.Args) != 1 {
				return nil, fmt.Errorf("len takes one argument")
			}
			v, err := env.eval(x.Args[0])
			if err != nil {
				return nil, err
			}
			if v.T != nil {
				switch u := v.T.Underlying().(type) {
				case *types.Slice:
					if len(v.L) == 4 {
						return mathVal(v.L[2].T, "Int"), nil
					}
				case *types.Basic:
					if u.Info()&types.IsString != 0 {
						e.declFun("strlen", []string{"Str"}, "Int")
						// (not for terms over ghost-function parameters or quantified variables: they are not in scope at top level)
						if !strings.Contains(v.L[0].T, "|gp!") {
							e.assertTyping("(<= 0 (strlen " + v.L[0].T + "))")
						}
						return mathVal("(strlen "+v.L[0].T+")", "Int"), nil
					}
				}
			}
			return nil, fmt.Errorf("len of %s not supported", exprString(x.Args[0]))
		case "cap":
			if _, shadow := env.vars["cap"]; !shadow && len(x.Args) == 1 {
				v, err := env.eval(x.Args[0])
				if err != nil {
					return nil, err
				}
				if v.T == nil || len(v.L) != 4 {
					return nil, fmt.Errorf("cap() needs a slice")
				}
				return mathVal(v.L[3].T, "Int"), nil
			}
		case "base", "off":
			if _, shadow := env.vars[id.Name]; !shadow && len(x.Args) == 1 {
				v, err := env.eval(x.Args[0])
				if err != nil {
					return nil, err
				}
				if v.T == nil || len(v.L) != 4 {
					return nil, fmt.Errorf("%s() needs a slice", id.Name)
				}
				if id.Name == "base" {
					return mathVal(v.L[0].T, "Int"), nil
				}
				if id.Name == "cap" {
					return mathVal(v.L[3].T, "Int"), nil
				}
				return mathVal(v.L[1].T, "Int"), nil
			}
		case "min", "max":
			if len(x.Args) != 2 {
				return nil, fmt.Errorf("%s takes two arguments", id.Name)
			}
			a, err := env.evalInt(x.Args[0])
			if err != nil {
				return nil, err
			}
			b, err := env.evalInt(x.Args[1])
			if err != nil {
				return nil, err
			}
			if id.Name == "min" {
				return mathVal(ite("(<= "+a+" "+b+")", a, b), "Int"), nil
			}
			return mathVal(ite("(>= "+a+" "+b+")", a, b), "Int"), nil
		case "abs":
			a, err := env.evalInt(x.Args[0])
			if err != nil {
				return nil, err
			}
			return mathVal(ite("(>= "+a+" 0)", a, "(- "+a+")"), "Int"), nil
		case "pow2":
			a, err := env.evalInt(x.Args[0])
			if err != nil {
				return nil, err
			}
			n, ok := isConstTerm(a)
			if !ok || !n.IsInt64() || n.Int64() > 4096 || n.Sign() < 0 {
				return nil, fmt.Errorf("pow2 needs a small constant")
			}
			return mathVal(pow2(n.Int64()).String(), "Int"), nil
		case "keys":
			v, err := env.eval(x.Args[0])
			if err != nil {
				return nil, err
			}
			if v.T != nil {
				if _, ok := v.T.Underlying().(*types.Map); ok && len(v.L) == 1 {
					ksort, dk, ds, _, ok := e.mapKeys(v.T)
					if !ok {
						return nil, fmt.Errorf("map with composite key")
					}
					dom := e.heapGet(env.st, dk, ds)
					return mathVal("(select "+dom+" "+v.L[0].T+")", "(Array "+ksort+" Bool)"), nil
				}
			}
			return nil, fmt.Errorf("keys() needs a Go map")
		case "keysAt":
			// keysAt(r, m): key set of the Go map object r, taken to be of the same map type as the map-typed expression m
			// (for frame statements over every map of a type: forall r ref :: !fresh(r) ==> keysAt(r, m) == old(keysAt(r, m)))
			if len(x.Args) == 2 {
				menv := env
				if env.fr == nil && env.typeFr != nil {
					// inside old(): the map expression only supplies the map type, locals may be named
					c := *env
					c.fr = env.typeFr
					menv = &c
				}
				m, err := menv.eval(x.Args[1])
				if err != nil {
					return nil, err
				}
				r, err := env.eval(x.Args[0])
				if err != nil {
					return nil, err
				}
				if m.T != nil && len(r.L) == 1 && r.L[0].S == "Int" {
					if _, ok := m.T.Underlying().(*types.Map); ok {
						ksort, dk, ds, _, ok := e.mapKeys(m.T)
						if !ok {
							return nil, fmt.Errorf("map with composite key")
						}
						dom := e.heapGet(env.st, dk, ds)
						return mathVal("(select "+dom+" "+r.L[0].T+")", "(Array "+ksort+" Bool)"), nil
					}
				}
			}
			return nil, fmt.Errorf("keysAt(r, m) needs a reference and a Go map expression")
		case "fresh":
			v, err := env.eval(x.Args[0])
			if err != nil {
				return nil, err
			}
			if len(v.L) < 1 || v.L[0].S != "Int" {
				return nil, fmt.Errorf("fresh() needs a reference")
			}
			return mathVal("(> "+v.L[0].T+" "+env.old.alloc+")", "Bool"), nil
		case "allocated":
			v, err := env.eval(x.Args[0])
			if err != nil {
				return nil, err
			}
			return mathVal("(and (> "+v.L[0].T+" 0) (<= "+v.L[0].T+" "+env.st.alloc+"))", "Bool"), nil
		case "typeof":
			v, err := env.eval(x.Args[0])
			if err != nil {
				return nil, err
			}
			if len(v.L) != 2 {
				return nil, fmt.Errorf("typeof needs an interface value")
			}
			return mathVal(v.L[0].T, "Int"), nil
		case "substr", "strcat":
			// the string operations of the encoder (s[lo:hi], a + b) as specification functions
			want := map[string]int{"substr": 3, "strcat": 2}[id.Name]
			if _, shadow := env.vars[id.Name]; !shadow && len(x.Args) == want {
				if _, isGhost := e.DB.Ghosts[id.Name]; !isGhost {
					vals, err := env.evalArgs(x.Args)
					if err != nil {
						return nil, err
					}
					var ts []string
					for i, v := range vals {
						wantSort := "Str"
						if id.Name == "substr" && i > 0 {
							wantSort = "Int"
						}
						if len(v.L) != 1 || v.L[0].S != wantSort {
							return nil, fmt.Errorf("argument %d of %s has the wrong sort", i+1, id.Name)
						}
						ts = append(ts, v.L[0].T)
					}
					var f string
					if id.Name == "substr" {
						f = e.declFun("substr", []string{"Str", "Int", "Int"}, "Str")
					} else {
						f = e.declFun("strcat", []string{"Str", "Str"}, "Str")
					}
					return &Val{T: types.Typ[types.String], L: []Sc{{"(" + f + " " + strings.Join(ts, " ") + ")", "Str"}}}, nil
				}
			}
		case "bytes":
			// abstraction of the content of a []byte value in the current state
			if len(x.Args) == 1 {
				if _, shadow := env.vars["bytes"]; !shadow {
					v, err := env.eval(x.Args[0])
					if err != nil {
						return nil, err
					}
					return e.bytesOf(env.st, v)
				}
			}
		case "visited":
			if env.fr != nil && len(x.Args) == 1 {
				if n, ok := x.Args[0].(*ENum); ok && n.V.IsInt64() {
					return env.visitedSet(int(n.V.Int64()))
				}
			}
		case "content":
			// abstraction of the content of any slice value in the current state (generalises bytes()): an
			// uninterpreted function of the backing arrays, offset and length -> one scalar of sort Content
			if len(x.Args) == 1 {
				if _, shadow := env.vars["content"]; !shadow {
					v, err := env.eval(x.Args[0])
					if err != nil {
						return nil, err
					}
					return e.contentOf(env.st, v)
				}
			}
		case "viewEq", "viewEqOld":
			// viewEq(l1, l2): every layered ghost variable has the same content at layers l1 and l2 (current state);
			// viewEqOld(l1, l2): content at l1 now == content at l2 in the pre-state
			if len(x.Args) == 2 {
				l1, err := env.evalInt(x.Args[0])
				if err != nil {
					return nil, err
				}
				oenv := env
				if id.Name == "viewEqOld" {
					n := *env
					n.st = env.old
					oenv = &n
				}
				l2, err := oenv.evalInt(x.Args[1])
				if err != nil {
					return nil, err
				}
				var cs []string
				for _, gn := range e.DB.Layered {
					g, ok := e.DB.GhostVars[gn]
					if !ok {
						continue // declared in a package that is not part of this load
					}
					a, err := env.ghostVarTerm(g, env.st)
					if err != nil {
						return nil, err
					}
					b, err := env.ghostVarTerm(g, oenv.st)
					if err != nil {
						return nil, err
					}
					cs = append(cs, eq("(select "+a.L[0].T+" "+l1+")", "(select "+b.L[0].T+" "+l2+")"))
				}
				return mathVal(and(cs...), "Bool"), nil
			}
		case "zero":
			if len(x.Args) == 1 {
				if tl, ok := x.Args[0].(*ETypeLit); ok {
					gt, err := e.resolveGoType(tl.T, env.pkgPath, env.imports)
					if err != nil {
						return nil, err
					}
					return e.zeroVal(gt), nil
				}
			}
			return nil, fmt.Errorf("zero() needs type(T)")
		case "unbox":
			if len(x.Args) == 2 {
				if tl, ok := x.Args[1].(*ETypeLit); ok {
					gt, err := e.resolveGoType(tl.T, env.pkgPath, env.imports)
					if err != nil {
						return nil, err
					}
					v, err := env.eval(x.Args[0])
					if err != nil {
						return nil, err
					}
					if len(v.L) != 2 {
						return nil, fmt.Errorf("unbox needs an interface value")
					}
					return e.unboxAs(env.st, v.L[1].T, gt), nil
				}
			}
			return nil, fmt.Errorf("unbox(x, type(T))")
		case "asptr":
			// asptr(r, type(*T)): view the reference r (e.g. the payload of an interface value holding a *T) as a *T
			if len(x.Args) == 2 {
				if tl, ok := x.Args[1].(*ETypeLit); ok {
					gt, err := e.resolveGoType(tl.T, env.pkgPath, env.imports)
					if err != nil {
						return nil, err
					}
					if !isPointer(gt) {
						return nil, fmt.Errorf("asptr() needs a pointer type, got %s", typeStr(gt))
					}
					v, err := env.eval(x.Args[0])
					if err != nil {
						return nil, err
					}
					if len(v.L) != 1 || v.L[0].S != "Int" {
						return nil, fmt.Errorf("asptr() needs a reference")
					}
					return &Val{T: gt, L: []Sc{v.L[0]}}, nil
				}
			}
			return nil, fmt.Errorf("asptr(r, type(*T))")
		case "implements":
			// implements(x, type(I)): the dynamic type of interface value x (or the type tag x) implements interface I
			if len(x.Args) == 2 {
				if tl, ok := x.Args[1].(*ETypeLit); ok {
					gt, err := e.resolveGoType(tl.T, env.pkgPath, env.imports)
					if err != nil {
						return nil, err
					}
					if _, isIface := gt.Underlying().(*types.Interface); !isIface {
						return nil, fmt.Errorf("implements() needs an interface type, got %s", typeStr(gt))
					}
					v, err := env.eval(x.Args[0])
					if err != nil {
						return nil, err
					}
					if len(v.L) == 2 || (len(v.L) == 1 && v.L[0].S == "Int") {
						return mathVal(e.implementsTerm(v.L[0].T, gt), "Bool"), nil
					}
					return nil, fmt.Errorf("implements() needs an interface value or a type tag")
				}
			}
			return nil, fmt.Errorf("implements(x, type(I))")
		case "payload":
			v, err := env.eval(x.Args[0])
			if err != nil {
				return nil, err
			}
			if len(v.L) != 2 {
				return nil, fmt.Errorf("payload needs an interface value")
			}
			return mathVal(v.L[1].T, "Int"), nil
		case "int", "int64", "uint64", "uint", "int32", "uint32", "uint8", "byte":
			if _, shadow := env.vars[id.Name]; !shadow && len(x.Args) == 1 {
				a, err := env.evalInt(x.Args[0])
				if err != nil {
					return nil, err
				}
				return mathVal(a, "Int"), nil
			}
		}
		if g, ok := e.DB.Ghosts[id.Name]; ok {
			return env.callGhost(g, x.Args)
		}
		// package-level pure Go function of the current package
		if o, err := e.P.resolveNamed(id.Name, env.pkgPath, env.imports); err == nil {
			if f, ok := o.(*types.Func); ok {
				return env.callPureGo(f, nil, x.Args)
			}
		}
		return nil, fmt.Errorf("unknown function %s", id.Name)
	}
	if sel, ok := x.Fun.(*ESel); ok {
		if id, ok := sel.X.(*EIdent); ok {
			if _, isVar := env.vars[id.Name]; !isVar {
				if _, isImp := env.imports[id.Name]; isImp && (env.fr == nil || env.lookupSSA(id.Name) == nil) {
					o, err := e.P.resolveNamed(id.Name+"."+sel.Name, env.pkgPath, env.imports)
					if err != nil {
						return nil, err
					}
					f, ok := o.(*types.Func)
					if !ok {
						return nil, fmt.Errorf("%s.%s is not a function", id.Name, sel.Name)
					}
					return env.callPureGo(f, nil, x.Args)
				}
			}
		}
		recv, err := env.eval(sel.X)
		if err != nil {
			return nil, err
		}
		if recv.T == nil {
			return nil, fmt.Errorf("method call on mathematical value in %s", exprString(x))
		}
		obj, _, _ := types.LookupFieldOrMethod(recv.T, true, e.P.lookupPkg(env.pkgPath), sel.Name)
		if obj == nil {
			if n, ok := derefNamed(recv.T); ok && n.Obj().Pkg() != nil {
				obj, _, _ = types.LookupFieldOrMethod(recv.T, true, n.Obj().Pkg(), sel.Name)
			}
		}
		f, ok := obj.(*types.Func)
		if !ok {
			return nil, fmt.Errorf("no method %s on %s", sel.Name, typeStr(recv.T))
		}
		// interface receiver with a known dynamic type: the concrete method's (pure) contract is used when it has one
		if _, isIface := recv.T.Underlying().(*types.Interface); isIface && len(recv.L) == 2 {
			if n, ok := isConstTerm(recv.L[0].T); ok && n.Sign() > 0 {
				if ct := e.TI.tagTyp[int(n.Int64())]; ct != nil {
					if fn := e.P.SSA.LookupMethod(ct, f.Pkg(), f.Name()); fn != nil {
						if cf, ok := fn.Object().(*types.Func); ok {
							if cc0, ok := e.DB.Contracts[cf.FullName()]; ok && cc0.Pure {
								return env.callPureGo(cf, e.unboxAs(env.st, recv.L[1].T, ct), x.Args)
							}
						}
					}
				}
			}
		}
		return env.callPureGo(f, recv, x.Args)
	}
	return nil, fmt.Errorf("cannot call %s", exprString(x.Fun))
}

func (env *Env) callPureGo(f *types.Func, recv *Val, args []Expr) (*Val, error) {
	e := env.e
	c, ok := e.DB.Contracts[f.FullName()]
	if !ok || !c.Pure {
		return nil, fmt.Errorf("%s is not declared pure; only pure functions may be called in specifications", f.FullName())
	}
	vals, err := env.evalArgs(args)
	if err != nil {
		return nil, err
	}
	if recv != nil {
		// method value receivers: a pointer-receiver method called on an addressable value etc. is not normalised here
		vals = append([]*Val{recv}, vals...)
	}
	sig := f.Type().(*types.Signature)
	var rt types.Type
	switch sig.Results().Len() {
	case 1:
		rt = sig.Results().At(0).Type()
	default:
		rt = sig.Results()
	}
	res := e.pureApp(c, vals, rt, env.st)
	// the facts the contract states about the function's value hold wherever it is applied
	if len(c.Ensures) > 0 && env.depth < 3 {
		env2 := &Env{e: e, vars: e.bindParams(c, vals, c.Sig), st: env.st, old: env.st, pkgPath: c.PkgPath, imports: c.Imports, depth: env.depth + 1}
		env2.bindResults(c, res, rt)
		for _, en := range c.Ensures {
			if g, err := env2.evalBool(en.E); err == nil && !strings.Contains(g, "|q!") {
				e.assert(g)
			}
		}
	}
	return res, nil
}

// callGhost applies a ghost function (defined or uninterpreted).
func (env *Env) callGhost(g *GhostFunc, args []Expr) (*Val, error) {
	e := env.e
	if len(args) != len(g.Params) {
		return nil, fmt.Errorf("ghost %s takes %d arguments", g.Name, len(g.Params))
	}
	if g.Macro {
		if env.depth > 8 {
			return nil, fmt.Errorf("ghost macro %s: expansion too deep (recursive?)", g.Name)
		}
		m := &Env{e: e, vars: map[string]*Val{}, st: env.st, old: env.old, pkgPath: g.PkgPath, imports: g.Imports, depth: env.depth + 1}
		for i, a := range args {
			v, err := env.eval(a)
			if err != nil {
				return nil, err
			}
			m.vars[g.Params[i].Name] = v
		}
		r, err := m.eval(g.Body)
		if err != nil {
			return nil, fmt.Errorf("ghost macro %s: %v", g.Name, err)
		}
		return r, nil
	}
	name, rsort, err := e.ghostSymbol(g)
	if err != nil {
		return nil, err
	}
	var ts []string
	for i, a := range args {
		v, err := env.eval(a)
		if err != nil {
			return nil, err
		}
		if len(v.L) != 1 {
			return nil, fmt.Errorf("argument %d of %s is not scalar", i+1, g.Name)
		}
		ts = append(ts, v.L[0].T)
	}
	_, gt, _ := e.resolveTypeExpr(g.Ret, g.PkgPath, g.Imports)
	if len(ts) == 0 {
		return &Val{T: gt, L: []Sc{{name, rsort}}}, nil
	}
	return &Val{T: gt, L: []Sc{{"(" + name + " " + strings.Join(ts, " ") + ")", rsort}}}, nil
}

func (e *Enc) ghostSymbol(g *GhostFunc) (string, string, error) {
	name := sym("ghost!" + g.Name)
	rsort, _, err := e.resolveTypeExpr(g.Ret, g.PkgPath, g.Imports)
	if err != nil {
		return "", "", fmt.Errorf("ghost %s: %v", g.Name, err)
	}
	if k, ok := e.declared[name]; ok {
		if k == "ghost-pending" {
			e.recGhost[name] = true
		}
		return name, rsort, nil
	}
	var psorts []string
	var binders []string
	vars := map[string]*Val{}
	for _, p := range g.Params {
		s, gt, err := e.resolveTypeExpr(p.T, g.PkgPath, g.Imports)
		if err != nil {
			return "", "", fmt.Errorf("ghost %s: %v", g.Name, err)
		}
		e.declSort(s)
		psorts = append(psorts, s)
		pn := sym("gp!" + p.Name)
		binders = append(binders, "("+pn+" "+s+")")
		vars[p.Name] = &Val{T: gt, L: []Sc{{pn, s}}}
	}
	if g.Body == nil {
		if len(psorts) == 0 {
			e.declConst(name, rsort)
		} else {
			e.declFun(name, psorts, rsort)
		}
		return name, rsort, nil
	}
	// reserve the name first so that recursion is detected
	e.declared[name] = "ghost-pending"
	env := &Env{e: e, vars: vars, st: &State{heap: map[string]string{}, alloc: "0", reach: "true"}, pkgPath: g.PkgPath, imports: g.Imports}
	env.old = env.st
	b, err := env.eval(g.Body)
	if err != nil {
		delete(e.declared, name)
		return "", "", fmt.Errorf("ghost %s: %v", g.Name, err)
	}
	if len(b.L) != 1 || b.L[0].S != rsort {
		delete(e.declared, name)
		return "", "", fmt.Errorf("ghost %s: body has sort %v, declared %s", g.Name, sortsOf(b), rsort)
	}
	e.declSort(rsort)
	e.declared[name] = "fun"
	kw := "define-fun"
	if e.recGhost[name] {
		kw = "define-fun-rec"
	}
	e.emit("(" + kw + " " + name + " (" + strings.Join(binders, " ") + ") " + rsort + " " + b.L[0].T + ")")
	return name, rsort, nil
}

// ---------- modifies targets ----------

func (env *Env) havocTarget(st *State, x Expr) error {
	e := env.e
	switch x := x.(type) {
	case *EIdent:
		if x.Name == "everything" {
			e.havocAll(st)
			return nil
		}
		if _, shadow := env.vars[x.Name]; x.Name == "views" && !shadow {
			// views: every layered ghost variable, at every layer
			for _, gn := range e.DB.Layered {
				if g, ok := e.DB.GhostVars[gn]; ok {
					sort, _, err := e.resolveTypeExpr(g.T, g.PkgPath, g.Imports)
					if err != nil {
						return err
					}
					e.heapGet(st, "G|"+g.Name, sort)
					e.heapHavoc(st, "G|"+g.Name)
				}
			}
			return nil
		}
		if g, ok := e.DB.GhostVars[x.Name]; ok {
			sort, _, err := e.resolveTypeExpr(g.T, g.PkgPath, g.Imports)
			if err != nil {
				return err
			}
			e.heapGet(st, "G|"+g.Name, sort)
			e.heapHavoc(st, "G|"+g.Name)
			return nil
		}
	case *EIndex:
		// ghost array element (possibly nested)
		base, idxs, err := env.ghostPath(x)
		if err == nil {
			sort, _, err := e.resolveTypeExpr(base.T, base.PkgPath, base.Imports)
			if err != nil {
				return err
			}
			cur := e.heapGet(st, "G|"+base.Name, sort)
			nt, err := storePath(e, cur, sort, idxs)
			if err != nil {
				return err
			}
			// a ghost map keyed by object reference: the write is attributed to that object (loop havoc, fresh_writes)
			e.withRef(idxs[0], func() { e.heapSet(st, "G|"+base.Name, sort, nt) })
			return nil
		}
		// slice element
		a, err2 := env.eval(x.X)
		if err2 != nil {
			return err2
		}
		if a.T != nil {
			if u, ok := a.T.Underlying().(*types.Slice); ok && len(a.L) == 4 {
				i, err := env.evalInt(x.I)
				if err != nil {
					return err
				}
				loc := &Loc{Kind: 'S', Key: typeStr(u.Elem()), Ref: a.L[0].T, Idx: e.elemIdx(a.L[1].T, i), T: u.Elem()}
				e.storeLoc(st, loc, e.freshVal(st, "hv", u.Elem()))
				return nil
			}
			if _, ok := a.T.Underlying().(*types.Map); ok && len(a.L) == 1 {
				k, err := env.eval(x.I)
				if err != nil {
					return err
				}
				return e.havocMapEntry(st, a.T, a.L[0].T, k.L[0].T)
			}
		}
		return err
	case *ESel:
		v, err := env.eval(x.X)
		if err != nil {
			return err
		}
		if v.Loc == nil && (v.T == nil || !isPointer(v.T)) {
			return fmt.Errorf("modifies target %s is not a field of a pointer", exprString(x))
		}
		loc := e.ptrLoc(v)
		stt, ok := loc.T.Underlying().(*types.Struct)
		if !ok || loc.Kind == 'P' {
			return fmt.Errorf("modifies target %s: not a transparent struct", exprString(x))
		}
		path, ft, ok := findField(stt, x.Name)
		if !ok {
			return fmt.Errorf("no field %s", x.Name)
		}
		nl := *loc
		nl.Path += path
		nl.T = ft
		e.storeLoc(st, &nl, e.freshVal(st, "hv", ft))
		return nil
	case *EUn:
		if x.Op == "*" {
			v, err := env.eval(x.X)
			if err != nil {
				return err
			}
			loc := e.ptrLoc(v)
			if loc.Kind == 'A' {
				return fmt.Errorf("modifies of whole arrays not supported")
			}
			e.storeLoc(st, loc, e.freshVal(st, "hv", loc.T))
			return nil
		}
	case *ECall:
		if id, ok := x.Fun.(*EIdent); ok && id.Name == "fieldof" && len(x.Args) == 2 {
			tl, ok1 := x.Args[0].(*ETypeLit)
			fn, ok2 := x.Args[1].(*EIdent)
			if ok1 && ok2 {
				keys, err := e.fieldKeys(tl.T, fn.Name, env.pkgPath, env.imports)
				if err != nil {
					return err
				}
				for _, k := range keys {
					e.heapGet(st, k[0], k[1])
					e.heapHavoc(st, k[0])
				}
				return nil
			}
		}
		if id, ok := x.Fun.(*EIdent); ok && len(x.Args) == 1 {
			switch id.Name {
			case "elems":
				// every element of every slice/array backing of this element type
				if tl, ok := x.Args[0].(*ETypeLit); ok {
					gt, err := e.resolveGoType(tl.T, env.pkgPath, env.imports)
					if err != nil {
						return err
					}
					for _, lf := range e.TI.shape(gt) {
						k := "S|" + typeStr(gt) + "|" + lf.Path
						e.heapGet(st, k, "(Array Int (Array Int "+lf.Sort+"))")
						e.heapHavoc(st, k)
					}
					return nil
				}
			case "view":
				// view(l): the content of every layered ghost variable at layer l
				l, err := env.evalInt(x.Args[0])
				if err != nil {
					return err
				}
				for _, gn := range e.DB.Layered {
					g, ok := e.DB.GhostVars[gn]
					if !ok {
						continue
					}
					sort, _, err := e.resolveTypeExpr(g.T, g.PkgPath, g.Imports)
					if err != nil {
						return err
					}
					cur := e.heapGet(st, "G|"+g.Name, sort)
					nt, err := storePath(e, cur, sort, []string{l})
					if err != nil {
						return err
					}
					e.heapSet(st, "G|"+g.Name, sort, nt)
				}
				return nil
			case "contents":
				v, err := env.eval(x.Args[0])
				if err != nil {
					return err
				}
				if v.T != nil {
					switch u := v.T.Underlying().(type) {
					case *types.Map:
						return e.havocMap(st, v.T, v.L[0].T)
					case *types.Slice:
						for _, lf := range e.TI.shape(u.Elem()) {
							k := "S|" + typeStr(u.Elem()) + "|" + lf.Path
							s := "(Array Int (Array Int " + lf.Sort + "))"
							h := e.heapGet(st, k, s)
							e.heapSet(st, k, s, "(store "+h+" "+v.L[0].T+" "+e.fresh("hv", "(Array Int "+lf.Sort+")")+")")
						}
						return nil
					}
				}
				return fmt.Errorf("contents() needs a map or slice")
			}
		}
	}
	return fmt.Errorf("unsupported modifies target %s", exprString(x))
}

func (e *Enc) havocMap(st *State, mt types.Type, m string) error {
	ksort, dk, ds, vleaves, ok := e.mapKeys(mt)
	if !ok {
		return fmt.Errorf("map with composite key")
	}
	h := e.heapGet(st, dk, ds)
	e.heapSet(st, dk, ds, "(store "+h+" "+m+" "+e.fresh("hv", "(Array "+ksort+" Bool)")+")")
	for _, lf := range vleaves {
		k, s := mapValKey(mt, lf, ksort)
		h := e.heapGet(st, k, s)
		e.heapSet(st, k, s, "(store "+h+" "+m+" "+e.fresh("hv", "(Array "+ksort+" "+lf.Sort+")")+")")
	}
	return nil
}

func (e *Enc) havocMapEntry(st *State, mt types.Type, m, k string) error {
	ksort, dk, ds, vleaves, ok := e.mapKeys(mt)
	if !ok {
		return fmt.Errorf("map with composite key")
	}
	h := e.heapGet(st, dk, ds)
	e.heapSet(st, dk, ds, "(store "+h+" "+m+" (store (select "+h+" "+m+") "+k+" "+e.fresh("hv", "Bool")+"))")
	for _, lf := range vleaves {
		kk, s := mapValKey(mt, lf, ksort)
		h := e.heapGet(st, kk, s)
		e.heapSet(st, kk, s, "(store "+h+" "+m+" (store (select "+h+" "+m+") "+k+" "+e.fresh("hv", lf.Sort)+"))")
	}
	return nil
}

// ghostPath decomposes g[i][j].. into the ghost variable and index terms.
func (env *Env) ghostPath(x Expr) (*GhostVar, []string, error) {
	switch x := x.(type) {
	case *EIdent:
		if _, shadow := env.vars[x.Name]; shadow {
			return nil, nil, fmt.Errorf("not a ghost variable")
		}
		if g, ok := env.e.DB.GhostVars[x.Name]; ok {
			return g, nil, nil
		}
	case *EIndex:
		g, idxs, err := env.ghostPath(x.X)
		if err != nil {
			return nil, nil, err
		}
		i, err := env.eval(x.I)
		if err != nil {
			return nil, nil, err
		}
		if len(i.L) != 1 {
			return nil, nil, fmt.Errorf("composite index")
		}
		return g, append(idxs, i.L[0].T), nil
	}
	return nil, nil, fmt.Errorf("not a ghost array path")
}

// storePath: cur[i1][i2]..[in] := fresh
func storePath(e *Enc, cur, sort string, idxs []string) (string, error) {
	if len(idxs) == 0 {
		return e.fresh("hv", sort), nil
	}
	if !strings.HasPrefix(sort, "(Array ") {
		return "", fmt.Errorf("too many indices for sort %s", sort)
	}
	_, vs := splitArraySort(sort)
	inner, err := storePath(e, "(select "+cur+" "+idxs[0]+")", vs, idxs[1:])
	if err != nil {
		return "", err
	}
	return "(store " + cur + " " + idxs[0] + " " + inner + ")", nil
}

// bytesOf: abstract byte string held by a []byte slice value in state st.
func (e *Enc) bytesOf(st *State, v *Val) (*Val, error) {
	if v.T == nil || len(v.L) != 4 {
		return nil, fmt.Errorf("bytes() needs a []byte value")
	}
	sl, ok := v.T.Underlying().(*types.Slice)
	if !ok {
		return nil, fmt.Errorf("bytes() needs a []byte value")
	}
	if b, ok := sl.Elem().Underlying().(*types.Basic); !ok || b.Kind() != types.Uint8 {
		return nil, fmt.Errorf("bytes() needs a []byte value")
	}
	h := e.heapGet(st, "S|"+typeStr(sl.Elem())+"|", "(Array Int (Array Int Int))")
	return &Val{L: []Sc{{e.bseqTerm("(select "+h+" "+v.L[0].T+")", v.L[1].T, v.L[2].T), "Bytes"}}}, nil
}

// bseqTerm: the abstract content of the window [off, off+ln) of a byte backing array. When the prelude declares the
// sequence vocabulary (ghost funcs blen / bempty / b1, see prelude 40_cpc_bytes.spec) the facts that tie a window to it
// are asserted for this instance: its length, the empty window, the one-byte window.
func (e *Enc) bseqTerm(arr, off, ln string) string {
	e.declSort("Bytes")
	f := e.declFun("bseq", []string{"(Array Int Int)", "Int", "Int"}, "Bytes")
	t := "(" + f + " " + arr + " " + off + " " + ln + ")"
	e.bytesInterpretation(f)
	if e.bseqSeen == nil {
		e.bseqSeen = map[string]bool{}
	}
	if e.bseqSeen[t] || len(e.boundIn(t)) > 0 {
		// (no instance facts for windows that mention a quantified variable: they would have to be asserted as
		// quantified facts, which costs the solvers more than it helps)
		return t
	}
	e.bseqSeen[t] = true
	if g, ok := e.DB.Ghosts["blen"]; ok && len(g.Params) == 1 && g.Body == nil {
		if n, _, err := e.ghostSymbol(g); err == nil {
			e.assert("(= (" + n + " " + t + ") " + ln + ")")
		}
	}
	if g, ok := e.DB.Ghosts["bempty"]; ok && len(g.Params) == 0 && g.Body == nil {
		if n, _, err := e.ghostSymbol(g); err == nil {
			e.assert(implies(eq(ln, "0"), eq(t, n)))
		}
	}
	if g, ok := e.DB.Ghosts["b1"]; ok && len(g.Params) == 1 && g.Body == nil {
		if n, _, err := e.ghostSymbol(g); err == nil {
			e.assert(implies(eq(ln, "1"), eq(t, "("+n+" (select "+arr+" "+off+"))")))
		}
	}
	return t
}

// bcatFact: after append(s, t...) on byte slices the content of the result is the concatenation of the contents of
// s and t (only when the prelude declares ghost func bcat).
func (e *Enc) bcatFact(res, s, t string) {
	if g, ok := e.DB.Ghosts["bcat"]; ok && len(g.Params) == 2 && g.Body == nil {
		if n, _, err := e.ghostSymbol(g); err == nil {
			e.assert(eq(res, "("+n+" "+s+" "+t+")"))
		}
	}
}

// bytesInterpretation: when the prelude declares the uninterpreted ghost functions `blen(b bytes) int` and
// `bat(b bytes, i int) int`, the abstract content of a []byte is tied to the slice it abstracts:
// blen(bytes(s)) == len(s) and bat(bytes(s), i) == s[i] for 0 <= i < len(s). Without these ghosts bytes() stays opaque.
func (e *Enc) bytesInterpretation(bseq string) {
	if _, done := e.declared["bytes!interp"]; done {
		return
	}
	gl, ok1 := e.DB.Ghosts["blen"]
	ga, ok2 := e.DB.Ghosts["bat"]
	if !ok1 || !ok2 || gl.Body != nil || ga.Body != nil || len(gl.Params) != 1 || len(ga.Params) != 2 {
		return
	}
	// the element-wise reading is only useful together with a theory of bat: it is emitted when an axiom that mentions
	// bat is in scope for the property being checked (axioms may be scoped: axiom[Cxx] ...)
	theory := false
	for _, ax := range e.DB.Axioms {
		if strings.Contains(ax.Src, "bat(") && (len(ax.Props) == 0 || currentProperty == "" || ax.Props[currentProperty]) {
			theory = true
			break
		}
	}
	if !theory {
		e.declared["bytes!interp"] = "off"
		return
	}
	e.declared["bytes!interp"] = "done"
	ln, ls, err1 := e.ghostSymbol(gl)
	an, as, err2 := e.ghostSymbol(ga)
	if err1 != nil || err2 != nil || ls != "Int" || as != "Int" {
		return
	}
	// emitted as axioms: subject to the relevance filter of solve.go (kept only when blen / bat / bsub matter)
	e.emit("; axiom bytes-interpretation-len")
	e.assert("(forall ((a (Array Int Int)) (o Int) (n Int)) (! (=> (<= 0 n) (= (" + ln + " (" + bseq + " a o n)) n)) :pattern ((" + bseq + " a o n))))")
	e.emit("; axiom bytes-interpretation-at")
	e.assert("(forall ((a (Array Int Int)) (o Int) (n Int) (i Int)) (! (=> (and (<= 0 i) (< i n)) (= (" + an + " (" + bseq + " a o n) i) (select a (+ o i)))) :pattern ((" + an + " (" + bseq + " a o n) i))))")
	// `bsub(b bytes, lo int, hi int) bytes` (sub-string [lo, hi)): the content of a re-sliced []byte s[lo:hi] is
	// bsub(bytes(s), lo, hi) — a consequence of the element link and extensionality, stated so that no solver has to find it
	if gs, ok := e.DB.Ghosts["bsub"]; ok && gs.Body == nil && len(gs.Params) == 3 {
		if sn, ss, err := e.ghostSymbol(gs); err == nil && ss == "Bytes" {
			e.emit("; axiom bytes-interpretation-sub")
			e.assert("(forall ((a (Array Int Int)) (o Int) (n Int) (lo Int) (hi Int)) (! (=> (and (<= 0 lo) (<= lo hi) (<= hi n)) (= (" + sn + " (" + bseq + " a o n) lo hi) (" + bseq + " a (+ o lo) (- hi lo)))) :pattern ((" + sn + " (" + bseq + " a o n) lo hi))))")
		}
	}
}

// contentOf: abstract content of a slice value (any element type) in state st.
func (e *Enc) contentOf(st *State, v *Val) (*Val, error) {
	if v.T == nil || len(v.L) != 4 {
		return nil, fmt.Errorf("content() needs a slice value")
	}
	sl, ok := v.T.Underlying().(*types.Slice)
	if !ok {
		return nil, fmt.Errorf("content() needs a slice value")
	}
	e.declSort("Content")
	var sorts, args []string
	for _, lf := range e.TI.shape(sl.Elem()) {
		k := "S|" + typeStr(sl.Elem()) + "|" + lf.Path
		srt := "(Array Int (Array Int " + lf.Sort + "))"
		h := e.heapGet(st, k, srt)
		sorts = append(sorts, "(Array Int "+lf.Sort+")")
		args = append(args, "(select "+h+" "+v.L[0].T+")")
	}
	sorts = append(sorts, "Int", "Int")
	args = append(args, v.L[1].T, v.L[2].T)
	f := e.declFun(sym("cseq!"+typeStr(sl.Elem())), sorts, "Content")
	return &Val{L: []Sc{{"(" + f + " " + strings.Join(args, " ") + ")", "Content"}}}, nil
}

// selectPatterns proposes triggers for a universally quantified clause: the innermost (select ...) terms of the body that
// contain every bound variable (each one an alternative single-term pattern). Explicit triggers keep the solvers from
// choosing multi-patterns or arithmetic sub-terms, which made index-wise facts about slices slow and solver-dependent.
// No candidate -> no annotation (the solver chooses).
func selectPatterns(body string, vars []string) []string {
	seen := map[string]bool{}
	var out []string
	// variables bound by quantifiers NESTED in the body (a symbol in head position of a list is a binder: `(|q!m!7| Int)`):
	// a term that mentions one of them is not in scope of the quantifier the patterns are selected for
	var innerBound []string
	for i := 0; i+4 < len(body); i++ {
		if body[i] == '(' && body[i+1] == '|' && strings.HasPrefix(body[i+2:], "q!") {
			if j := strings.IndexByte(body[i+2:], '|'); j > 0 {
				innerBound = append(innerBound, body[i+1:i+2+j+1])
			}
		}
	}
	// positions of "(select "
	for i := 0; i+8 <= len(body); i++ {
		if body[i:i+8] != "(select " {
			continue
		}
		// find the matching close paren
		d := 0
		j := i
		inBar := false
		for ; j < len(body); j++ {
			c := body[j]
			if c == '|' {
				inBar = !inBar
			}
			if inBar {
				continue
			}
			if c == '(' {
				d++
			} else if c == ')' {
				d--
				if d == 0 {
					break
				}
			}
		}
		if j >= len(body) {
			break
		}
		t := body[i : j+1]
		all := true
		for _, v := range vars {
			if !strings.Contains(t, v) {
				all = false
				break
			}
		}
		if !all {
			continue
		}
		// innermost: no proper sub-term that is a select containing all variables
		inner := false
		for k := 1; k+8 <= len(t); k++ {
			if t[k:k+8] == "(select " {
				// sub select term
				d2, m := 0, k
				bar := false
				for ; m < len(t); m++ {
					c := t[m]
					if c == '|' {
						bar = !bar
					}
					if bar {
						continue
					}
					if c == '(' {
						d2++
					} else if c == ')' {
						d2--
						if d2 == 0 {
							break
						}
					}
				}
				sub := t[k : m+1]
				ok := true
				for _, v := range vars {
					if !strings.Contains(sub, v) {
						ok = false
						break
					}
				}
				if ok {
					inner = true
					break
				}
			}
		}
		if inner || seen[t] || strings.Contains(t, "(ite ") || strings.Contains(t, "(forall ") || strings.Contains(t, "(exists ") {
			continue
		}
		outOfScope := false
		for _, w := range innerBound {
			if strings.Contains(t, w) {
				outOfScope = true
			}
		}
		if outOfScope {
			continue
		}
		seen[t] = true
		out = append(out, t)
	}
	if len(out) > 6 {
		return nil
	}
	if len(out) == 0 && len(vars) > 1 {
		// no single term mentions every bound variable: one multi-pattern made of an innermost select term per variable
		var multi []string
		for _, v := range vars {
			c := selectPatterns(body, []string{v})
			// prefer a term that mentions no other bound variable
			pick := ""
			for _, t := range c {
				clean := true
				for _, w := range vars {
					if w != v && strings.Contains(t, w) {
						clean = false
					}
				}
				if clean {
					pick = t
					break
				}
			}
			if pick == "" {
				return nil
			}
			multi = append(multi, pick)
		}
		return []string{strings.Join(multi, " ")}
	}
	return out
}
