package main

import (
	"bytes"
	"context"
	"encoding/json"
	"fmt"
	"os"
	"os/exec"
	"path/filepath"
	"regexp"
	"strings"
	"time"
)

// Adapter turns a counterexample of an obligation into an executable test on the real code.
type Adapter struct {
	Function   string            `json:"function"`   // regexp on the function key
	Obligation string            `json:"obligation"` // regexp on the obligation name
	Template   string            `json:"template"`   // file under /verif/replay/adapters
	Dir        string            `json:"dir"`        // directory (relative to /repo) the test file is overlaid into
	Observe    map[string]string `json:"observe"`    // name -> contract-language expression over the entry state
	Mode       string            `json:"mode"`       // free text passed to the test ("panic", "ensures", …)
	// Witness: input used when the solver refutes an obligation without producing a model (quantified goals): the
	// adapter's own witness is run on the real code; only a reproduced violation counts as a failing input.
	Witness map[string]string `json:"witness"`
}

func loadAdapters() []Adapter {
	var as []Adapter
	data, err := os.ReadFile(filepath.Join(verifRoot(), "replay", "adapters.json"))
	if err != nil {
		return nil
	}
	if err := json.Unmarshal(data, &as); err != nil {
		fmt.Fprintln(os.Stderr, "replay/adapters.json:", err)
		return nil
	}
	return as
}

func findAdapter(as []Adapter, fn, obl string) *Adapter {
	for i := range as {
		a := &as[i]
		if ok, _ := regexp.MatchString("^(?:"+a.Function+")$", fn); !ok {
			continue
		}
		if ok, _ := regexp.MatchString("^(?:"+a.Obligation+")$", obl); !ok {
			continue
		}
		return a
	}
	return nil
}

// observeTerms evaluates the adapter's observables in the entry state of the function's encoding.
func observeTerms(e *Enc, a *Adapter) (names, terms []string, errs []string) {
	for _, n := range sortedKeys(a.Observe) {
		ex, err := parseExpr(a.Observe[n])
		if err != nil {
			errs = append(errs, err.Error())
			continue
		}
		env := e.envFor(e.top, e.top.entry)
		env.fr = nil
		v, err := env.eval(ex)
		if err != nil {
			errs = append(errs, n+": "+err.Error())
			continue
		}
		if len(v.L) != 1 {
			errs = append(errs, n+": not scalar")
			continue
		}
		names = append(names, n)
		terms = append(terms, v.L[0].T)
	}
	return
}

// parseGetValue parses "((t1 v1) (t2 v2) ...)" positionally.
func parseGetValue(out string, n int) []string {
	toks := tokenizeSexp(out)
	// find first "(" "(" sequence
	for i := 0; i+1 < len(toks); i++ {
		if toks[i] == "(" && toks[i+1] == "(" {
			j := i + 1
			var vals []string
			for j < len(toks) && toks[j] == "(" {
				// pair: ( term value )
				k := j + 1
				k = skipSexp(toks, k) // term
				v0 := k
				k = skipSexp(toks, k) // value
				val := strings.Join(toks[v0:k], " ")
				val = strings.ReplaceAll(strings.ReplaceAll(val, "( ", "("), " )", ")")
				vals = append(vals, val)
				if k < len(toks) && toks[k] == ")" {
					k++
				}
				j = k
			}
			if len(vals) == n {
				return vals
			}
			return nil
		}
	}
	return nil
}

type replayJob struct {
	adapter *Adapter
	names   []string
	values  []string
}

var replays = map[*Obligation]*replayJob{}

// tryReplay runs the counterexample of obligation o on the real code if an adapter exists.
// Returns (reproduced, output). Empty output means no adapter.
func tryReplay(prop string, o *Obligation, model map[string]string, replayPath string) (bool, string) {
	rj := replays[o]
	if rj == nil || rj.values == nil || os.Getenv("VERIF_NO_REPLAY") != "" {
		return false, ""
	}
	vals := map[string]string{}
	for i, n := range rj.names {
		v := rj.values[i]
		if d, ok := modelInt(v); ok {
			v = d
		}
		vals[n] = v
	}
	return runReplay(rj.adapter, prop, o.Func, o.Name, o.Kind, vals, replayPath)
}

func runReplay(a *Adapter, prop, fn, obl, kind string, vals map[string]string, replayPath string) (bool, string) {
	root := verifRoot()
	tmpl, err := os.ReadFile(filepath.Join(root, "replay", "adapters", a.Template))
	if err != nil {
		return false, "adapter template missing: " + err.Error()
	}
	scratch, err := os.MkdirTemp("", ".vc-replay-")
	if err != nil {
		return false, err.Error()
	}
	defer os.RemoveAll(scratch)
	testFile := filepath.Join(scratch, "zz_verif_replay_test.go")
	os.WriteFile(testFile, tmpl, 0o644)
	in := map[string]interface{}{"property": prop, "function": fn, "obligation": obl, "kind": kind, "mode": a.Mode, "values": vals}
	inFile := filepath.Join(scratch, "input.json")
	data, _ := json.MarshalIndent(in, "", " ")
	os.WriteFile(inFile, data, 0o644)
	repo := "/repo"
	if r := os.Getenv("VERIF_REPO"); r != "" {
		repo = r
	}
	target := filepath.Join(repo, a.Dir, "zz_verif_replay_test.go")
	ov := map[string]interface{}{"Replace": map[string]string{target: testFile}}
	ovData, _ := json.Marshal(ov)
	ovFile := filepath.Join(scratch, "overlay.json")
	os.WriteFile(ovFile, ovData, 0o644)
	ctx, cancel := context.WithTimeout(context.Background(), 15*time.Minute)
	defer cancel()
	// the overlaid package directory need not exist on disk: compile the test binary, then run it from scratch
	bin := filepath.Join(scratch, "replay.test")
	env := append(os.Environ(), "GOFLAGS=-mod=mod", "GOPROXY=off", "GOSUMDB=off", "GOTOOLCHAIN=local", "VERIF_REPLAY_INPUT="+inFile)
	var out bytes.Buffer
	build := exec.CommandContext(ctx, "go", "test", "-c", "-overlay", ovFile, "-vet=off", "-o", bin, "./"+a.Dir)
	build.Dir = repo
	build.Env = env
	build.Stdout = &out
	build.Stderr = &out
	if err := build.Run(); err != nil {
		return false, "replay test does not build: " + truncStr(out.String(), 3000)
	}
	cmd := exec.CommandContext(ctx, bin, "-test.run", "^TestVerifReplay$", "-test.v", "-test.timeout", "300s")
	cmd.Dir = scratch
	cmd.Env = env
	cmd.Stdout = &out
	cmd.Stderr = &out
	_ = cmd.Run()
	txt := out.String()
	// keep the replay input next to the replay record so that bin/replay can re-run it
	if replayPath != "" {
		os.WriteFile(strings.TrimSuffix(replayPath, ".json")+".input.json", data, 0o644)
	}
	var keep []string
	for _, l := range strings.Split(txt, "\n") {
		if strings.Contains(l, "REPLAY") || strings.Contains(l, "FAIL") || strings.Contains(l, "panic") || strings.Contains(l, "ok ") {
			keep = append(keep, l)
		}
	}
	res := strings.Join(keep, "\n")
	if res == "" {
		res = truncStr(txt, 4000)
	}
	return strings.Contains(txt, "REPLAY-REPRODUCED"), res
}
