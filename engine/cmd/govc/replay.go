package main

// tryReplay runs the counterexample of obligation o on the real code if an adapter exists.
// Returns (reproduced, output). Empty output means no adapter.
func tryReplay(prop string, o *Obligation, model map[string]string, replayPath string) (bool, string) {
	return false, ""
}
