package main

import (
	"fmt"
	"os"
	"strings"
	"time"
)

func main() {
	if len(os.Args) < 2 {
		fmt.Fprintln(os.Stderr, "usage: govc dump|check ...")
		os.Exit(2)
	}
	switch os.Args[1] {
	case "dump":
		// govc dump <funcSubstring> <patterns...>
		t0 := time.Now()
		repo := "/repo"
		if r := os.Getenv("VERIF_REPO"); r != "" {
			repo = r
		}
		P, err := loadProgram(repo, os.Args[3:], nil)
		if err != nil {
			fmt.Fprintln(os.Stderr, err)
			os.Exit(2)
		}
		fmt.Fprintf(os.Stderr, "loaded in %v\n", time.Since(t0))
		for _, f := range P.allFunctions() {
			if strings.Contains(f.String(), os.Args[2]) {
				f.WriteTo(os.Stdout)
			}
		}
	default:
		os.Exit(runCLI(os.Args[1:]))
	}
}
