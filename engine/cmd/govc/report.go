package main

import (
	"encoding/json"
	"fmt"
	"os"
	"path/filepath"
	"sort"
	"strings"
)

type Violation struct {
	Obl    *Obligation
	Enc    *Enc
	Reason string
}

type Report struct {
	Prop, Tier     string
	Seed           int
	funcs          []string
	obligations    int
	discharged     int
	covers         int
	violations     []*Violation
	problems       []string // contract errors, out-of-reach, missing obligations: undischarged
	notes          []string
	knownLines     []string
	knownConfirmed []string
	singleSolver   []string
	detOnly        []string
	samples        []map[string]interface{}
	solverSecs     map[string]float64
	loadSecs       float64
	wall           float64
	cfg            *PropConfig
	trusted        map[string]int
	inlined        map[string]int
	unspec         map[string]int
	usedContracts  map[string]int
	encNotes       []string
	byKind         map[string]int
	bySolver       map[string]int
	maxSecs        float64
	allObls        []map[string]interface{}
	replayDir      string
}

func (r *Report) samplesAdd(o *Obligation) {
	if r.byKind == nil {
		r.byKind = map[string]int{}
		r.bySolver = map[string]int{}
	}
	r.byKind[o.Kind]++
	if o.Solver != "" {
		r.bySolver[o.Solver]++
	}
	if o.Seconds > r.maxSecs {
		r.maxSecs = o.Seconds
	}
	m := map[string]interface{}{"obligation": shortKey(o.Func) + "#" + o.Name, "kind": o.Kind, "clause": o.Clause,
		"result": o.Result, "solver": o.Solver, "seconds": round3(o.Seconds), "smt_bytes": o.Bytes}
	if o.Excused != "" {
		m["proved_under_not_excuse_of"] = o.Excused
	}
	r.allObls = append(r.allObls, m)
}

func round3(f float64) float64 { return float64(int(f*1000+0.5)) / 1000 }

func (r *Report) collect(frs []*FuncResult, db *SpecDB) {
	r.trusted, r.inlined, r.unspec, r.usedContracts = map[string]int{}, map[string]int{}, map[string]int{}, map[string]int{}
	for _, fr := range frs {
		for k, n := range fr.Enc.assumedUsed {
			r.trusted[k] += n
		}
		for _, tc := range fr.Enc.trustedClauses {
			r.trusted[tc]++
		}
		for k, n := range fr.Enc.inlined {
			r.inlined[k] += n
		}
		for k, n := range fr.Enc.unspecCalls {
			r.unspec[k] += n
		}
		for k, n := range fr.Enc.usedContracts {
			r.usedContracts[k] += n
		}
		r.encNotes = append(r.encNotes, fr.Enc.notes...)
	}
	r.encNotes = dedupe(r.encNotes)
}

func countList(m map[string]int) []string {
	var out []string
	for _, k := range sortedKeys(m) {
		out = append(out, fmt.Sprintf("%s x%d", shortKey(k), m[k]))
	}
	return out
}

func (r *Report) finish(evidencePath string) int {
	root := verifRoot()
	nviol := 0
	var lines []string
	replayDir := filepath.Join(root, "replays", r.Prop)
	if r.replayDir != "" {
		replayDir = r.replayDir
	}
	os.RemoveAll(replayDir)
	// problems are undischarged obligations without a model
	if len(r.problems) > 0 {
		os.MkdirAll(replayDir, 0o755)
		p := filepath.Join(replayDir, "undischarged.json")
		writeJSON(p, map[string]interface{}{"property": r.Prop, "kind": "obligations not generated or contracts not well-formed", "problems": r.problems})
		lines = append(lines, fmt.Sprintf("VIOLATION property=%s replay=%s no-failing-input-found", r.Prop, p))
		nviol += len(r.problems)
	}
	sort.Slice(r.violations, func(i, j int) bool { return r.violations[i].Obl.Name < r.violations[j].Obl.Name })
	for _, v := range r.violations {
		os.MkdirAll(replayDir, 0o755)
		o := v.Obl
		name := nonWord.ReplaceAllString(shortKey(o.Func)+"#"+o.Name, "_")
		if len(name) > 150 {
			name = name[:150]
		}
		p := filepath.Join(replayDir, name+".json")
		rec := map[string]interface{}{"property": r.Prop, "function": o.Func, "obligation": o.Name, "kind": o.Kind, "clause": o.Clause,
			"position": o.Pos, "solver_result": o.Result, "solver": o.Solver, "reason": v.Reason}
		suffix := " no-failing-input-found"
		if o.Result == "sat" && o.Model != "" {
			m := parseModel(o.Model)
			inputs := map[string]string{}
			for k, val := range m {
				if strings.HasPrefix(k, "in!") || strings.Contains(k, "@0") {
					if len(val) < 200 {
						inputs[k] = val
					}
				}
			}
			rec["model_inputs"] = inputs
			rec["model_raw"] = truncStr(o.Model, 20000)
			// replay on the real code
			ok, out := tryReplay(r.Prop, o, m, p)
			rec["replay_attempted"] = out != ""
			rec["replay_reproduced"] = ok
			rec["replay_output"] = truncStr(out, 8000)
			if ok {
				suffix = ""
			}
		} else {
			rec["solver_output"] = truncStr(o.Raw, 8000)
			// no model (quantified goal / timeout): try the adapter's own witness on the real code
			if a := findAdapter(loadAdapters(), o.Func, o.Name); a != nil && a.Witness != nil && os.Getenv("VERIF_NO_REPLAY") == "" {
				ok, out := runReplay(a, r.Prop, o.Func, o.Name, o.Kind, a.Witness, p)
				rec["replay_attempted"] = true
				rec["replay_input_source"] = "adapter witness (the solver gave no model for this obligation)"
				rec["replay_reproduced"] = ok
				rec["replay_output"] = truncStr(out, 8000)
				if ok {
					suffix = ""
				}
			}
		}
		writeJSON(p, rec)
		lines = append(lines, fmt.Sprintf("VIOLATION property=%s replay=%s%s", r.Prop, p, suffix))
		nviol++
	}
	for _, l := range r.knownLines {
		fmt.Println(l)
	}
	for _, l := range lines {
		fmt.Println(l)
	}
	// evidence
	var samples []map[string]interface{}
	for i, s := range r.allObls {
		if i < 12 || s["result"] != "unsat" {
			samples = append(samples, s)
		}
	}
	if len(samples) == 0 {
		samples = append(samples, map[string]interface{}{"note": "no obligations"})
	}
	trusted := countList(r.trusted)
	trusted = append(trusted, "go/packages + go/types + go/ssa (x/tools v0.29.0) and the govc encoder", "SMT solvers z3 4.8.12 / z3 5.1.0 / cvc5 1.0.3 (an unsat answer is believed)")
	assumptions := []string{
		"T1: SSA construction and the govc encoding are correct (mitigated by the must-fail corpus and by replaying counterexamples on the compiled code)",
		"T2: solver unsat answers are correct",
		"T3: every contract marked 'assumed' in /verif/prelude (listed in coverage.trusted_base with use counts) describes its dependency correctly",
		"T5: termination is not verified",
		"T6: fixed-width integers have exact machine semantics; math/big and sdkmath values are mathematical integers with the libraries' range panics as explicit panic points",
	}
	if r.cfg != nil {
		assumptions = append(assumptions, r.cfg.Assumptions...)
	}
	ev := map[string]interface{}{
		"property_id": r.Prop, "tier": r.Tier, "seed": r.Seed, "level": "proof", "wall_s": round3(r.wall), "violations": nviol,
		"coverage": map[string]interface{}{
			"obligations": r.obligations, "discharged": r.discharged,
			"checker_cmd":                  fmt.Sprintf("bin/govc check --property %s --tier %s", r.Prop, r.Tier),
			"trusted_base":                 trusted,
			"samples":                      samples,
			"functions_under_contract":     shortKeys(r.funcs),
			"obligations_by_kind":          r.byKind,
			"discharged_by_backend":        r.bySolver,
			"solver_seconds":               roundMap(r.solverSecs),
			"slowest_obligation_s":         round3(r.maxSecs),
			"load_and_ssa_s":               round3(r.loadSecs),
			"cover_queries":                r.covers,
			"contracts_used_at_call_sites": countList(r.usedContracts),
			"inlined_functions":            countList(r.inlined),
			"unspecified_calls":            countList(r.unspec),
			"out_of_reach_or_malformed":    r.problems,
			"known_findings_confirmed":     r.knownConfirmed,
			"single_solver":                r.singleSolver,
			"determinism_only_functions":   r.detOnly,
			"encoder_notes":                r.encNotes,
			"notes":                        r.notes,
			"not_decided":                  notDecided(r.cfg),
			"explanation":                  "Every obligation is a weakest-precondition VC generated from the go/ssa form of /repo's working tree for the listed functions under contract; a caller sees only the contract of a callee that has one.",
		},
		"assumptions": assumptions,
	}
	os.MkdirAll(filepath.Dir(evidencePath), 0o755)
	writeJSON(evidencePath, ev)
	fmt.Fprintf(os.Stderr, "%s %s: %d functions, %d/%d obligations discharged, %d cover queries, %d violations, %.1fs\n", r.Prop, r.Tier, len(r.funcs), r.discharged, r.obligations, r.covers, nviol, r.wall)
	if nviol > 0 {
		return 1
	}
	return 0
}

func notDecided(c *PropConfig) string {
	if c == nil {
		return ""
	}
	return c.NotDecided
}

func shortKeys(xs []string) []string {
	var out []string
	for _, x := range xs {
		out = append(out, shortKey(x))
	}
	return out
}

func roundMap(m map[string]float64) map[string]float64 {
	o := map[string]float64{}
	for k, v := range m {
		o[k] = round3(v)
	}
	return o
}

func writeJSON(path string, v interface{}) {
	data, err := json.MarshalIndent(v, "", " ")
	if err != nil {
		fmt.Fprintln(os.Stderr, "cannot encode", path, err)
		return
	}
	if err := os.WriteFile(path, append(data, '\n'), 0o644); err != nil {
		fmt.Fprintln(os.Stderr, "cannot write", path, err)
	}
}
