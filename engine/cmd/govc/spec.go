package main

import (
	"fmt"
	"math/big"
	"strings"
	"unicode"
)

// ---------- expression AST of the contract language ----------

type Expr interface{}

type (
	EIdent struct{ Name string }
	ENum   struct{ V *big.Int }
	EStr   struct{ V string }
	EBool  struct{ V bool }
	EUn    struct {
		Op string
		X  Expr
	}
	EBin struct {
		Op   string
		X, Y Expr
	}
	ECond struct{ C, A, B Expr }
	ECall struct {
		Fun  Expr
		Args []Expr
	}
	ESel struct {
		X    Expr
		Name string
	}
	EIndex struct{ X, I Expr }
	EUpd   struct{ X, I, V Expr }
	// ESlice is s[lo:hi] on a slice value (lo / hi may be nil)
	ESlice struct{ X, Lo, Hi Expr }
	EQuant struct {
		Forall bool
		Vars   []QVar
		Body   Expr
		// optional triggers, Dafny style: `forall x T :: {f(x), g(x)} {h(x)} body` — each group is one multi-pattern
		Pats [][]Expr
	}
	EOld struct{ X Expr }
	// ETypeLit is a type used as an expression (typeof(x) == T)
	ETypeLit struct{ T *TypeExpr }
)

type QVar struct {
	Name string
	T    *TypeExpr
}

// TypeExpr is the syntax of a type in the contract language.
type TypeExpr struct {
	Kind string // "name", "ptr", "slice", "map", "set"
	Name string // for "name": possibly qualified "pkg.T"
	K, V *TypeExpr
}

func (t *TypeExpr) String() string {
	switch t.Kind {
	case "name":
		return t.Name
	case "ptr":
		return "*" + t.V.String()
	case "slice":
		return "[]" + t.V.String()
	case "map":
		return "map[" + t.K.String() + "]" + t.V.String()
	case "set":
		return "set[" + t.K.String() + "]"
	}
	return "?"
}

// ---------- lexer ----------

type tok struct {
	k string // "id", "num", "str", "op", "eof"
	s string
}

func lex(src string) ([]tok, error) {
	var out []tok
	i := 0
	ops := []string{"<==>", "==>", "::", ":=", "==", "!=", "<=", ">=", "&&", "||", "<<", ">>",
		"(", ")", "[", "]", ",", ".", "?", ":", "<", ">", "+", "-", "*", "/", "%", "!", "=", "{", "}", "|", "&", "^"}
	for i < len(src) {
		c := src[i]
		if c == ' ' || c == '\t' || c == '\n' || c == '\r' {
			i++
			continue
		}
		if unicode.IsLetter(rune(c)) || c == '_' {
			j := i
			for j < len(src) && (unicode.IsLetter(rune(src[j])) || unicode.IsDigit(rune(src[j])) || src[j] == '_') {
				j++
			}
			out = append(out, tok{"id", src[i:j]})
			i = j
			continue
		}
		if unicode.IsDigit(rune(c)) {
			j := i
			for j < len(src) && (unicode.IsDigit(rune(src[j])) || unicode.IsLetter(rune(src[j])) || src[j] == '_') {
				j++
			}
			out = append(out, tok{"num", strings.ReplaceAll(src[i:j], "_", "")})
			i = j
			continue
		}
		if c == '"' {
			j := i + 1
			for j < len(src) && src[j] != '"' {
				if src[j] == '\\' {
					j++
				}
				j++
			}
			if j >= len(src) {
				return nil, fmt.Errorf("unterminated string")
			}
			out = append(out, tok{"str", src[i+1 : j]})
			i = j + 1
			continue
		}
		matched := false
		for _, op := range ops {
			if strings.HasPrefix(src[i:], op) {
				out = append(out, tok{"op", op})
				i += len(op)
				matched = true
				break
			}
		}
		if !matched {
			return nil, fmt.Errorf("unexpected character %q", c)
		}
	}
	out = append(out, tok{"eof", ""})
	return out, nil
}

// ---------- sparser ----------

type sparser struct {
	t []tok
	p int
}

func (p *sparser) peek() tok { return p.t[p.p] }
func (p *sparser) next() tok { t := p.t[p.p]; p.p++; return t }
func (p *sparser) isOp(s string) bool {
	return p.t[p.p].k == "op" && p.t[p.p].s == s
}
func (p *sparser) isId(s string) bool {
	return p.t[p.p].k == "id" && p.t[p.p].s == s
}
func (p *sparser) accept(s string) bool {
	if p.isOp(s) {
		p.p++
		return true
	}
	return false
}
func (p *sparser) expect(s string) {
	if !p.accept(s) {
		panic(fmt.Errorf("expected %q, found %q", s, p.peek().s))
	}
}

func parseExpr(src string) (e Expr, err error) {
	defer func() {
		if r := recover(); r != nil {
			if er, ok := r.(error); ok {
				err = fmt.Errorf("%v in %q", er, src)
				return
			}
			panic(r)
		}
	}()
	ts, err := lex(src)
	if err != nil {
		return nil, fmt.Errorf("%v in %q", err, src)
	}
	p := &sparser{t: ts}
	e = p.expr()
	if p.peek().k != "eof" {
		return nil, fmt.Errorf("trailing tokens at %q in %q", p.peek().s, src)
	}
	return e, nil
}

func parseExprList(src string) (es []Expr, err error) {
	defer func() {
		if r := recover(); r != nil {
			if er, ok := r.(error); ok {
				err = fmt.Errorf("%v in %q", er, src)
				return
			}
			panic(r)
		}
	}()
	ts, err := lex(src)
	if err != nil {
		return nil, err
	}
	p := &sparser{t: ts}
	if p.peek().k == "eof" {
		return nil, nil
	}
	for {
		es = append(es, p.expr())
		if !p.accept(",") {
			break
		}
	}
	if p.peek().k != "eof" {
		return nil, fmt.Errorf("trailing tokens at %q in %q", p.peek().s, src)
	}
	return es, nil
}

func (p *sparser) expr() Expr {
	if p.isId("forall") || p.isId("exists") {
		fa := p.next().s == "forall"
		var vars []QVar
		for {
			var names []string
			names = append(names, p.ident())
			// allow "a, b T"
			for p.isOp(",") && p.t[p.p+1].k == "id" && (p.t[p.p+2].k == "op" && p.t[p.p+2].s == ",") {
				p.next()
				names = append(names, p.ident())
			}
			var t *TypeExpr
			if p.isOp(",") && p.t[p.p+1].k == "id" {
				// "a, b T" final pair
				p.next()
				names = append(names, p.ident())
			}
			t = p.typeExpr()
			for _, n := range names {
				vars = append(vars, QVar{n, t})
			}
			if !p.accept(",") {
				break
			}
		}
		p.expect("::")
		var pats [][]Expr
		for p.isOp("{") {
			p.next()
			var grp []Expr
			for {
				grp = append(grp, p.ternary())
				if !p.accept(",") {
					break
				}
			}
			p.expect("}")
			pats = append(pats, grp)
		}
		body := p.expr()
		return &EQuant{fa, vars, body, pats}
	}
	return p.ternary()
}

func (p *sparser) ident() string {
	t := p.next()
	if t.k != "id" {
		panic(fmt.Errorf("expected identifier, found %q", t.s))
	}
	return t.s
}

func (p *sparser) typeExpr() *TypeExpr {
	if p.accept("*") {
		return &TypeExpr{Kind: "ptr", V: p.typeExpr()}
	}
	if p.isOp("[") {
		p.next()
		p.expect("]")
		return &TypeExpr{Kind: "slice", V: p.typeExpr()}
	}
	name := p.ident()
	if name == "map" || name == "set" {
		p.expect("[")
		k := p.typeExpr()
		p.expect("]")
		if name == "set" {
			return &TypeExpr{Kind: "set", K: k}
		}
		return &TypeExpr{Kind: "map", K: k, V: p.typeExpr()}
	}
	if p.isOp(".") && p.t[p.p+1].k == "id" {
		p.next()
		name = name + "." + p.ident()
	}
	return &TypeExpr{Kind: "name", Name: name}
}

func (p *sparser) ternary() Expr {
	c := p.impl()
	if p.accept("?") {
		a := p.expr()
		p.expect(":")
		b := p.expr()
		return &ECond{c, a, b}
	}
	return c
}

func (p *sparser) impl() Expr {
	x := p.orE()
	if p.isOp("==>") || p.isOp("<==>") {
		op := p.next().s
		y := p.impl()
		return &EBin{op, x, y}
	}
	return x
}

func (p *sparser) orE() Expr {
	x := p.andE()
	for p.isOp("||") {
		p.next()
		x = &EBin{"||", x, p.andE()}
	}
	return x
}

func (p *sparser) andE() Expr {
	x := p.cmp()
	for p.isOp("&&") {
		p.next()
		x = &EBin{"&&", x, p.cmp()}
	}
	return x
}

func (p *sparser) cmp() Expr {
	x := p.add()
	for {
		if p.peek().k == "op" {
			switch p.peek().s {
			case "==", "!=", "<", "<=", ">", ">=":
				op := p.next().s
				y := p.add()
				// chained comparisons a <= b < c
				if p.peek().k == "op" && (p.peek().s == "<" || p.peek().s == "<=" || p.peek().s == ">" || p.peek().s == ">=") {
					op2 := p.next().s
					z := p.add()
					return &EBin{"&&", &EBin{op, x, y}, &EBin{op2, y, z}}
				}
				return &EBin{op, x, y}
			}
		}
		if p.isId("in") {
			p.next()
			return &EBin{"in", x, p.add()}
		}
		return x
	}
}

func (p *sparser) add() Expr {
	x := p.mul()
	for p.isOp("+") || p.isOp("-") {
		op := p.next().s
		x = &EBin{op, x, p.mul()}
	}
	return x
}

func (p *sparser) mul() Expr {
	x := p.unary()
	for p.isOp("*") || p.isOp("/") || p.isOp("%") || p.isOp("<<") {
		op := p.next().s
		x = &EBin{op, x, p.unary()}
	}
	return x
}

func (p *sparser) unary() Expr {
	if p.isOp("!") || p.isOp("-") {
		op := p.next().s
		return &EUn{op, p.unary()}
	}
	return p.postfix()
}

func (p *sparser) postfix() Expr {
	x := p.primary()
	for {
		switch {
		case p.isOp("."):
			p.next()
			if p.isOp("(") { // x.(T) not supported
				panic(fmt.Errorf("type assertion syntax not supported"))
			}
			t := p.next()
			if t.k != "id" && t.k != "num" {
				panic(fmt.Errorf("expected field name after '.'"))
			}
			x = &ESel{x, t.s}
		case p.isOp("["):
			p.next()
			if p.accept(":") { // s[:hi]
				var hi Expr
				if !p.isOp("]") {
					hi = p.expr()
				}
				p.expect("]")
				x = &ESlice{x, nil, hi}
				continue
			}
			i := p.expr()
			if p.accept(":") { // s[lo:hi] / s[lo:]
				var hi Expr
				if !p.isOp("]") {
					hi = p.expr()
				}
				p.expect("]")
				x = &ESlice{x, i, hi}
				continue
			}
			if p.accept(":=") {
				v := p.expr()
				p.expect("]")
				x = &EUpd{x, i, v}
			} else {
				p.expect("]")
				x = &EIndex{x, i}
			}
		case p.isOp("("):
			p.next()
			var args []Expr
			if !p.isOp(")") {
				for {
					args = append(args, p.expr())
					if !p.accept(",") {
						break
					}
				}
			}
			p.expect(")")
			x = &ECall{x, args}
		default:
			return x
		}
	}
}

func (p *sparser) primary() Expr {
	t := p.next()
	switch t.k {
	case "num":
		v := new(big.Int)
		if _, ok := v.SetString(t.s, 0); !ok {
			panic(fmt.Errorf("bad number %q", t.s))
		}
		return &ENum{v}
	case "str":
		return &EStr{t.s}
	case "id":
		switch t.s {
		case "true":
			return &EBool{true}
		case "false":
			return &EBool{false}
		case "old":
			p.expect("(")
			x := p.expr()
			p.expect(")")
			return &EOld{x}
		case "typeof":
			p.expect("(")
			x := p.expr()
			p.expect(")")
			return &ECall{&EIdent{"typeof"}, []Expr{x}}
		case "type":
			p.expect("(")
			te := p.typeExpr()
			p.expect(")")
			return &ETypeLit{te}
		}
		return &EIdent{t.s}
	case "op":
		if t.s == "(" {
			x := p.expr()
			p.expect(")")
			return x
		}
		if t.s == "*" { // *p : dereference
			return &EUn{"*", p.unary()}
		}
	}
	panic(fmt.Errorf("unexpected token %q", t.s))
}

func exprString(e Expr) string {
	switch e := e.(type) {
	case *EIdent:
		return e.Name
	case *ENum:
		return e.V.String()
	case *EStr:
		return fmt.Sprintf("%q", e.V)
	case *EBool:
		return fmt.Sprint(e.V)
	case *EUn:
		return e.Op + exprString(e.X)
	case *EBin:
		return "(" + exprString(e.X) + " " + e.Op + " " + exprString(e.Y) + ")"
	case *ECond:
		return "(" + exprString(e.C) + " ? " + exprString(e.A) + " : " + exprString(e.B) + ")"
	case *ECall:
		var as []string
		for _, a := range e.Args {
			as = append(as, exprString(a))
		}
		return exprString(e.Fun) + "(" + strings.Join(as, ", ") + ")"
	case *ESel:
		return exprString(e.X) + "." + e.Name
	case *EIndex:
		return exprString(e.X) + "[" + exprString(e.I) + "]"
	case *EUpd:
		return exprString(e.X) + "[" + exprString(e.I) + " := " + exprString(e.V) + "]"
	case *ESlice:
		lo, hi := "", ""
		if e.Lo != nil {
			lo = exprString(e.Lo)
		}
		if e.Hi != nil {
			hi = exprString(e.Hi)
		}
		return exprString(e.X) + "[" + lo + ":" + hi + "]"
	case *EQuant:
		q := "exists"
		if e.Forall {
			q = "forall"
		}
		var vs []string
		for _, v := range e.Vars {
			vs = append(vs, v.Name+" "+v.T.String())
		}
		return "(" + q + " " + strings.Join(vs, ", ") + " :: " + exprString(e.Body) + ")"
	case *EOld:
		return "old(" + exprString(e.X) + ")"
	case *ETypeLit:
		return "type(" + e.T.String() + ")"
	}
	return "?"
}
