package main

import (
	"fmt"
	"go/types"
	"math/big"
	"regexp"
	"sort"
	"strings"

	"golang.org/x/tools/go/ssa"
)

// Sc is one SMT term with its sort.
type Sc struct {
	T string // term
	S string // sort
}

// Val is the symbolic value of a Go (or ghost) expression: a vector of scalar
// leaves whose layout is fixed by the static type (see shape), or an interior
// pointer (Loc) or a closure known at encode time (Clos).
type Val struct {
	T    types.Type // nil for purely mathematical values
	L    []Sc
	Loc  *Loc
	Clos *Clos
	// Alts: a function value that is one of several closures known at encode time, depending on the path taken
	// (phi of closures): calls through it are encoded as a case split
	Alts []ClosAlt
}

type ClosAlt struct {
	Cond string
	Clos *Clos
}

type Clos struct {
	Fn   *ssa.Function
	Bind []*Val
}

// Loc is an encode-time memory location.
type Loc struct {
	Kind byte   // 'F' field cell of an allocated struct, 'S' element of a backing array, 'P' plain cell
	Key  string // container type string
	Ref  string // Int term (object / backing reference)
	Idx  string // 'S' only
	Path string // leaf path prefix inside the container
	T    types.Type
	// Nullable: the pointer this location stands for may be nil (Ref == 0): the merge of `nil` with interior pointers
	// of one shape at a phi. A plain interior pointer (&x.f, &a[i]) is never nil.
	Nullable bool
}

type Leaf struct {
	Path string
	Sort string
	T    types.Type
}

func qual(p *types.Package) string { return p.Path() }

var aliasRe = regexp.MustCompile(`\b(byte|rune)\b`)

// typeStr is the canonical name of a type (byte/rune aliases are normalised so that []byte and []uint8 share heaps).
func typeStr(t types.Type) string {
	s := types.TypeString(t, qual)
	if strings.Contains(s, "byte") || strings.Contains(s, "rune") {
		s = aliasRe.ReplaceAllStringFunc(s, func(m string) string {
			if m == "byte" {
				return "uint8"
			}
			return "int32"
		})
	}
	return s
}

// sanitize turns an arbitrary string into an SMT simple-symbol-safe fragment; we always quote with |..| anyway.
func sym(s string) string {
	s = strings.ReplaceAll(s, "|", "!")
	s = strings.ReplaceAll(s, "\\", "!")
	return "|" + s + "|"
}

type TypeInfo struct {
	opaque map[string]string // type string -> sort name (declared in prelude)
	shapes map[string][]Leaf
	tags   map[string]int
	tagTyp map[int]types.Type
}

func newTypeInfo() *TypeInfo {
	return &TypeInfo{opaque: map[string]string{}, shapes: map[string][]Leaf{}, tags: map[string]int{}, tagTyp: map[int]types.Type{}}
}

func (ti *TypeInfo) tagOf(t types.Type) int {
	k := typeStr(t)
	if n, ok := ti.tags[k]; ok {
		return n
	}
	n := len(ti.tags) + 1
	ti.tags[k] = n
	ti.tagTyp[n] = t
	return n
}

func intRange(b *types.Basic) (lo, hi *big.Int, ok bool) {
	two := big.NewInt(2)
	pow := func(n int64) *big.Int { return new(big.Int).Exp(two, big.NewInt(n), nil) }
	one := big.NewInt(1)
	switch b.Kind() {
	case types.Int8:
		return new(big.Int).Neg(pow(7)), new(big.Int).Sub(pow(7), one), true
	case types.Int16:
		return new(big.Int).Neg(pow(15)), new(big.Int).Sub(pow(15), one), true
	case types.Int32:
		return new(big.Int).Neg(pow(31)), new(big.Int).Sub(pow(31), one), true
	case types.Int, types.Int64:
		return new(big.Int).Neg(pow(63)), new(big.Int).Sub(pow(63), one), true
	case types.Uint8:
		return big.NewInt(0), new(big.Int).Sub(pow(8), one), true
	case types.Uint16:
		return big.NewInt(0), new(big.Int).Sub(pow(16), one), true
	case types.Uint32:
		return big.NewInt(0), new(big.Int).Sub(pow(32), one), true
	case types.Uint, types.Uint64, types.Uintptr:
		return big.NewInt(0), new(big.Int).Sub(pow(64), one), true
	}
	return nil, nil, false
}

func isUnsigned(b *types.Basic) bool { return b.Info()&types.IsUnsigned != 0 }

func bitsOf(b *types.Basic) int64 {
	switch b.Kind() {
	case types.Int8, types.Uint8:
		return 8
	case types.Int16, types.Uint16:
		return 16
	case types.Int32, types.Uint32:
		return 32
	}
	return 64
}

func smtInt(n *big.Int) string {
	if n.Sign() < 0 {
		return "(- " + new(big.Int).Neg(n).String() + ")"
	}
	return n.String()
}

// shape computes the leaf layout of a Go type.
func (ti *TypeInfo) shape(t types.Type) []Leaf {
	k := typeStr(t)
	if s, ok := ti.shapes[k]; ok {
		return s
	}
	ti.shapes[k] = nil // recursion guard (recursive types only through pointers, which are leaves)
	s := ti.shape0(t)
	ti.shapes[k] = s
	return s
}

func (ti *TypeInfo) opaqueSort(t types.Type) (string, bool) {
	s, ok := ti.opaque[typeStr(t)]
	return s, ok
}

func (ti *TypeInfo) shape0(t types.Type) []Leaf {
	if s, ok := ti.opaqueSort(t); ok {
		return []Leaf{{"", s, t}}
	}
	switch u := t.Underlying().(type) {
	case *types.Basic:
		switch {
		case u.Info()&types.IsBoolean != 0:
			return []Leaf{{"", "Bool", t}}
		case u.Info()&types.IsInteger != 0:
			return []Leaf{{"", "Int", t}}
		case u.Info()&types.IsString != 0:
			return []Leaf{{"", "Str", t}}
		case u.Info()&types.IsFloat != 0:
			return []Leaf{{"", "Flt", t}}
		case u.Kind() == types.UnsafePointer:
			return []Leaf{{"", "Int", t}}
		case u.Kind() == types.UntypedNil:
			return []Leaf{{"", "Int", t}}
		}
		return []Leaf{{"", "Unk", t}}
	case *types.Pointer, *types.Map, *types.Chan, *types.Signature:
		return []Leaf{{"", "Int", t}}
	case *types.Struct:
		var out []Leaf
		for i := 0; i < u.NumFields(); i++ {
			f := u.Field(i)
			for _, l := range ti.shape(f.Type()) {
				out = append(out, Leaf{"." + f.Name() + l.Path, l.Sort, l.T})
			}
		}
		return out
	case *types.Array:
		es := ti.shape(u.Elem())
		if len(es) == 1 {
			return []Leaf{{"", "(Array Int " + es[0].Sort + ")", t}}
		}
		// arrays of multi-leaf elements: one array per leaf
		var out []Leaf
		for _, l := range es {
			out = append(out, Leaf{"[]" + l.Path, "(Array Int " + l.Sort + ")", t})
		}
		return out
	case *types.Slice:
		return []Leaf{{".base", "Int", t}, {".off", "Int", t}, {".len", "Int", t}, {".cap", "Int", t}}
	case *types.Interface:
		return []Leaf{{".tag", "Int", t}, {".pay", "Int", t}}
	case *types.Tuple:
		var out []Leaf
		for i := 0; i < u.Len(); i++ {
			for _, l := range ti.shape(u.At(i).Type()) {
				out = append(out, Leaf{fmt.Sprintf("#%d%s", i, l.Path), l.Sort, l.T})
			}
		}
		return out
	case *types.TypeParam:
		return []Leaf{{"", "Unk", t}}
	}
	return []Leaf{{"", "Unk", t}}
}

// fieldRange returns the [from,to) leaf range of field i of struct type st.
func (ti *TypeInfo) fieldRange(st *types.Struct, i int) (int, int) {
	off := 0
	for j := 0; j < i; j++ {
		off += len(ti.shape(st.Field(j).Type()))
	}
	return off, off + len(ti.shape(st.Field(i).Type()))
}

func (ti *TypeInfo) tupleRange(tu *types.Tuple, i int) (int, int) {
	off := 0
	for j := 0; j < i; j++ {
		off += len(ti.shape(tu.At(j).Type()))
	}
	return off, off + len(ti.shape(tu.At(i).Type()))
}

func zeroOfSort(s string) string {
	switch s {
	case "Int":
		return "0"
	case "Bool":
		return "false"
	}
	if strings.HasPrefix(s, "(Array ") {
		// (Array K V): constant array of zero
		_, v := splitArraySort(s)
		return "((as const " + s + ") " + zeroOfSort(v) + ")"
	}
	return "zero!" + sortSym(s)
}

func sortSym(s string) string {
	r := strings.NewReplacer("(", "_", ")", "_", " ", "_", "|", "")
	return r.Replace(s)
}

// splitArraySort splits "(Array K V)" into K and V.
func splitArraySort(s string) (string, string) {
	inner := strings.TrimSuffix(strings.TrimPrefix(s, "(Array "), ")")
	depth := 0
	for i, c := range inner {
		switch c {
		case '(':
			depth++
		case ')':
			depth--
		case ' ':
			if depth == 0 {
				return inner[:i], inner[i+1:]
			}
		}
	}
	return inner, ""
}

func isStructType(t types.Type) (*types.Struct, bool) {
	s, ok := t.Underlying().(*types.Struct)
	return s, ok
}

func sortedKeys[V any](m map[string]V) []string {
	ks := make([]string, 0, len(m))
	for k := range m {
		ks = append(ks, k)
	}
	sort.Strings(ks)
	return ks
}

func and(ts ...string) string {
	var xs []string
	for _, t := range ts {
		if t == "true" || t == "" {
			continue
		}
		if t == "false" {
			return "false"
		}
		xs = append(xs, t)
	}
	switch len(xs) {
	case 0:
		return "true"
	case 1:
		return xs[0]
	}
	return "(and " + strings.Join(xs, " ") + ")"
}

func or(ts ...string) string {
	var xs []string
	for _, t := range ts {
		if t == "false" || t == "" {
			continue
		}
		if t == "true" {
			return "true"
		}
		xs = append(xs, t)
	}
	switch len(xs) {
	case 0:
		return "false"
	case 1:
		return xs[0]
	}
	return "(or " + strings.Join(xs, " ") + ")"
}

func not(t string) string {
	switch t {
	case "true":
		return "false"
	case "false":
		return "true"
	}
	if strings.HasPrefix(t, "(not ") && strings.HasSuffix(t, ")") && balanced(t[5:len(t)-1]) {
		return t[5 : len(t)-1]
	}
	return "(not " + t + ")"
}

func balanced(s string) bool {
	d := 0
	for i, c := range s {
		switch c {
		case '(':
			d++
		case ')':
			d--
			if d < 0 {
				return false
			}
			if d == 0 && i != len(s)-1 {
				return false
			}
		case ' ':
			if d == 0 {
				return false
			}
		}
	}
	return d == 0
}

func implies(a, b string) string {
	if a == "true" {
		return b
	}
	if a == "false" || b == "true" {
		return "true"
	}
	return "(=> " + a + " " + b + ")"
}

func ite(c, a, b string) string {
	if c == "true" {
		return a
	}
	if c == "false" {
		return b
	}
	if a == b {
		return a
	}
	return "(ite " + c + " " + a + " " + b + ")"
}

func eq(a, b string) string {
	if a == b {
		return "true"
	}
	return "(= " + a + " " + b + ")"
}
