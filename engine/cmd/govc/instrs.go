package main

import (
	"fmt"
	"go/token"
	"go/types"
	"math/big"
	"strings"

	"golang.org/x/tools/go/ssa"
)

func (e *Enc) encodeInstrs(fr *Frame, b *ssa.BasicBlock, st *State) {
	for _, in := range b.Instrs {
		if st.reach == "false" {
			break
		}
		switch in := in.(type) {
		case *ssa.DebugRef:
		case *ssa.Phi:
			// handled at block entry
			if _, ok := fr.vals[in]; !ok {
				e.unsupportedf("phi %s of %s not bound", in.Name(), fr.fn)
				fr.vals[in] = e.freshVal(st, fr.prefix+in.Name(), in.Type())
			}
		case *ssa.Alloc:
			e.encAlloc(fr, st, in)
		case *ssa.Store:
			e.encStore(fr, st, in)
		case *ssa.UnOp:
			fr.vals[in] = e.encUnOp(fr, st, in)
		case *ssa.BinOp:
			fr.vals[in] = e.encBinOp(fr, st, in)
		case *ssa.FieldAddr:
			fr.vals[in] = e.encFieldAddr(fr, st, in)
		case *ssa.Field:
			x := e.val(fr, in.X)
			stt, _ := isStructType(in.X.Type())
			if stt == nil || len(x.L) != len(e.TI.shape(in.X.Type())) {
				e.unsupportedf("Field on unsupported value %s", in)
				fr.vals[in] = e.freshVal(st, fr.prefix+in.Name(), in.Type())
				break
			}
			lo, hi := e.TI.fieldRange(stt, in.Field)
			fr.vals[in] = &Val{T: in.Type(), L: x.L[lo:hi]}
		case *ssa.IndexAddr:
			fr.vals[in] = e.encIndexAddr(fr, st, in)
		case *ssa.Index:
			fr.vals[in] = e.encIndex(fr, st, in)
		case *ssa.Extract:
			t := e.val(fr, in.Tuple)
			tu := in.Tuple.Type().(*types.Tuple)
			lo, hi := e.TI.tupleRange(tu, in.Index)
			if hi > len(t.L) {
				e.unsupportedf("extract from malformed tuple in %s", fr.fn)
				fr.vals[in] = e.freshVal(st, fr.prefix+in.Name(), in.Type())
				break
			}
			fr.vals[in] = &Val{T: in.Type(), L: t.L[lo:hi]}
		case *ssa.Call:
			fr.vals[in] = e.encCall(fr, st, in, in.Common(), in.Pos())
		case *ssa.ChangeType:
			x := e.val(fr, in.X)
			y := *x
			y.T = in.Type()
			// pointer conversions between distinct named struct types would change heap keys
			if p1, ok := in.X.Type().Underlying().(*types.Pointer); ok {
				if p2, ok := in.Type().Underlying().(*types.Pointer); ok && typeStr(p1.Elem()) != typeStr(p2.Elem()) && !sameBasicCell(p1.Elem(), p2.Elem()) {
					e.unsupportedf("pointer conversion %s -> %s", typeStr(in.X.Type()), typeStr(in.Type()))
				}
			}
			if len(e.TI.shape(in.Type())) != len(x.L) && x.Loc == nil && x.Clos == nil {
				e.unsupportedf("ChangeType with different shapes %s -> %s", typeStr(in.X.Type()), typeStr(in.Type()))
				fr.vals[in] = e.freshVal(st, fr.prefix+in.Name(), in.Type())
				break
			}
			fr.vals[in] = &y
		case *ssa.ChangeInterface:
			x := e.val(fr, in.X)
			y := *x
			y.T = in.Type()
			fr.vals[in] = &y
		case *ssa.Convert:
			fr.vals[in] = e.encConvert(fr, st, in)
		case *ssa.MakeInterface:
			fr.vals[in] = e.makeInterface(st, e.val(fr, in.X), in.X.Type(), in.Type())
		case *ssa.TypeAssert:
			fr.vals[in] = e.encTypeAssert(fr, st, in)
		case *ssa.MakeClosure:
			c := &Clos{Fn: in.Fn.(*ssa.Function)}
			for _, bnd := range in.Bindings {
				c.Bind = append(c.Bind, e.val(fr, bnd))
			}
			fr.vals[in] = &Val{T: in.Type(), Clos: c}
		case *ssa.MakeMap:
			r := e.allocRef(st, "map")
			mt := in.Type()
			e.mapInit(st, mt, r)
			fr.vals[in] = &Val{T: mt, L: []Sc{{r, "Int"}}}
		case *ssa.MakeSlice:
			fr.vals[in] = e.encMakeSlice(fr, st, in)
		case *ssa.MakeChan:
			fr.vals[in] = &Val{T: in.Type(), L: []Sc{{e.allocRef(st, "chan"), "Int"}}}
		case *ssa.Slice:
			fr.vals[in] = e.encSlice(fr, st, in)
		case *ssa.Lookup:
			fr.vals[in] = e.encLookup(fr, st, in)
		case *ssa.MapUpdate:
			e.encMapUpdate(fr, st, in)
		case *ssa.Range:
			fr.vals[in] = e.encRange(fr, st, in)
		case *ssa.Next:
			fr.vals[in] = e.encNext(fr, st, in)
		case *ssa.Defer:
			e.encDefer(fr, st, in)
		case *ssa.RunDefers:
			e.encRunDefers(fr, st, in)
		case *ssa.Go:
			e.unsupportedf("go statement in %s", fr.fn)
		case *ssa.Select, *ssa.Send:
			e.unsupportedf("channel operation in %s", fr.fn)
		case *ssa.Panic:
			e.addPanic(fr, st, "panic", "true", "explicit panic", in.Pos())
			st.reach = "false"
		case *ssa.Return:
			// (also during the dry run of a loop body: a function inlined into the body must return, otherwise the dry run
			// stops at the first inlined call and misses every later write of the body; the exits recorded for the frame
			// that owns the loop are dropped again by endDry)
			{
				var res *Val
				if len(in.Results) == 1 {
					res = e.val(fr, in.Results[0])
				} else if len(in.Results) > 1 {
					res = &Val{T: fr.fn.Signature.Results()}
					for _, r := range in.Results {
						rv := e.val(fr, r)
						if rv.Loc != nil || rv.Clos != nil {
							e.unsupportedf("closure/interior pointer in multi-value return of %s", fr.fn)
							rv = e.freshVal(st, "ret", r.Type())
						}
						res.L = append(res.L, rv.L...)
					}
				}
				fr.exits = append(fr.exits, exitRec{st.clone(), res})
			}
		case *ssa.If, *ssa.Jump:
			// edges handled below
		case *ssa.SliceToArrayPointer, *ssa.MultiConvert:
			e.unsupportedf("%T in %s", in, fr.fn)
			if v, ok := in.(ssa.Value); ok {
				fr.vals[v] = e.freshVal(st, fr.prefix+v.Name(), v.Type())
			}
		default:
			e.unsupportedf("instruction %T in %s", in, fr.fn)
			if v, ok := in.(ssa.Value); ok {
				fr.vals[v] = e.freshVal(st, fr.prefix+v.Name(), v.Type())
			}
		}
	}
	fr.blockOut[b.Index] = st
	if st.reach == "false" {
		return
	}
	for si, s := range b.Succs {
		if fr.backEdge[[2]int{b.Index, s.Index}] {
			e.backEdgeObligations(fr, b, st, si)
		}
	}
}

func (e *Enc) encAlloc(fr *Frame, st *State, in *ssa.Alloc) {
	el := in.Type().(*types.Pointer).Elem()
	hint := in.Comment
	if hint == "" {
		hint = in.Name()
	}
	r := e.allocRef(st, fr.prefix+hint)
	p := &Val{T: in.Type(), L: []Sc{{r, "Int"}}}
	fr.vals[in] = p
	// zero-initialise
	loc := e.refLoc(r, el)
	if loc.Kind == 'A' {
		// array backing: zero contents
		arr := el.Underlying().(*types.Array)
		for _, lf := range e.TI.shape(arr.Elem()) {
			key := "S|" + typeStr(arr.Elem()) + "|" + lf.Path
			sort := "(Array Int (Array Int " + lf.Sort + "))"
			h := e.heapGet(st, key, sort)
			e.withRef(r, func() {
				e.heapSet(st, key, sort, "(store "+h+" "+r+" "+e.zeroArray(lf.Sort)+")")
			})
		}
		return
	}
	e.storeLoc(st, loc, e.zeroVal(el))
	if zi, ok := e.DB.ZeroInit[typeStr(el)]; ok {
		env := &Env{e: e, vars: map[string]*Val{"this": p}, st: st, old: st, pkgPath: zi.PkgPath, imports: zi.Imports}
		if t, err := env.evalBool(zi.E); err != nil {
			e.unsupportedf("zeroinit of %s: %v", typeStr(el), err)
		} else {
			e.assume(st, t)
		}
	}
}

func (e *Enc) nilCheck(fr *Frame, st *State, p *Val, pos token.Pos, what string) {
	if p.Loc != nil {
		if p.Loc.Nullable {
			e.safety(fr, st, "nil", not(eq(p.Loc.Ref, "0")), "nil dereference: "+what, pos)
		}
		return
	}
	if len(p.L) != 1 {
		return
	}
	t := p.L[0].T
	if strings.HasPrefix(t, "|ref!") || strings.HasPrefix(t, "|gref!") {
		return // freshly allocated or global
	}
	e.safety(fr, st, "nil", not(eq(t, "0")), "nil dereference: "+what, pos)
}

func (e *Enc) encStore(fr *Frame, st *State, in *ssa.Store) {
	p := e.val(fr, in.Addr)
	v := e.val(fr, in.Val)
	if p.Loc == nil || p.Loc.Nullable {
		e.nilCheck(fr, st, p, in.Pos(), "store")
	}
	loc := e.ptrLoc(p)
	if loc.Kind == 'A' {
		e.storeArray(st, loc, v)
		return
	}
	e.storeLoc(st, loc, v)
}

// storeArray stores a whole array value at a pointer-to-array location.
func (e *Enc) storeArray(st *State, loc *Loc, v *Val) {
	arr := loc.T.Underlying().(*types.Array)
	es := e.TI.shape(arr.Elem())
	if len(es) != len(v.L) {
		e.unsupportedf("whole-array store of %s", typeStr(loc.T))
		return
	}
	for i, lf := range es {
		key := "S|" + typeStr(arr.Elem()) + "|" + lf.Path
		sort := "(Array Int (Array Int " + lf.Sort + "))"
		h := e.heapGet(st, key, sort)
		e.withRef(loc.Ref, func() { e.heapSet(st, key, sort, "(store "+h+" "+loc.Ref+" "+v.L[i].T+")") })
	}
}

func (e *Enc) loadArray(st *State, loc *Loc) *Val {
	arr := loc.T.Underlying().(*types.Array)
	es := e.TI.shape(arr.Elem())
	v := &Val{T: loc.T}
	for _, lf := range es {
		key := "S|" + typeStr(arr.Elem()) + "|" + lf.Path
		sort := "(Array Int (Array Int " + lf.Sort + "))"
		h := e.heapGet(st, key, sort)
		v.L = append(v.L, Sc{"(select " + h + " " + loc.Ref + ")", "(Array Int " + lf.Sort + ")"})
	}
	return v
}

func (e *Enc) encUnOp(fr *Frame, st *State, in *ssa.UnOp) *Val {
	x := e.val(fr, in.X)
	switch in.Op {
	case token.MUL: // load
		if x.Loc == nil || x.Loc.Nullable {
			e.nilCheck(fr, st, x, in.Pos(), "load")
		}
		loc := e.ptrLoc(x)
		if loc.Kind == 'A' {
			return e.loadArray(st, loc)
		}
		return e.loadLoc(st, loc)
	case token.NOT:
		return &Val{T: in.Type(), L: []Sc{{not(x.L[0].T), "Bool"}}}
	case token.SUB:
		if b, ok := in.Type().Underlying().(*types.Basic); ok && b.Info()&types.IsInteger != 0 {
			return &Val{T: in.Type(), L: []Sc{{e.wrap("(- "+x.L[0].T+")", b), "Int"}}}
		}
	case token.XOR:
		if b, ok := in.Type().Underlying().(*types.Basic); ok && b.Info()&types.IsInteger != 0 {
			// ^x = -x-1 (signed) ; 2^n-1-x (unsigned)
			if isUnsigned(b) {
				_, hi, _ := intRange(b)
				return &Val{T: in.Type(), L: []Sc{{"(- " + smtInt(hi) + " " + x.L[0].T + ")", "Int"}}}
			}
			return &Val{T: in.Type(), L: []Sc{{"(- (- " + x.L[0].T + ") 1)", "Int"}}}
		}
	case token.ARROW:
		e.unsupportedf("channel receive in %s", fr.fn)
	}
	if in.Op != token.ARROW {
		e.unsupportedf("unary op %s on %s", in.Op, typeStr(in.X.Type()))
	}
	return e.freshVal(st, fr.prefix+in.Name(), in.Type())
}

func pow2(n int64) *big.Int { return new(big.Int).Lsh(big.NewInt(1), uint(n)) }

// wrap reduces an unbounded integer term to the machine range of b.
func (e *Enc) wrap(t string, b *types.Basic) string {
	lo, hi, ok := intRange(b)
	if !ok {
		return t
	}
	_ = hi
	m := pow2(bitsOf(b)).String()
	if isUnsigned(b) {
		return "(mod " + t + " " + m + ")"
	}
	h := new(big.Int).Neg(lo).String()
	return "(- (mod (+ " + t + " " + h + ") " + m + ") " + h + ")"
}

// wrap1 handles a result known to be off by at most one modulus (add/sub).
func (e *Enc) wrap1(t string, b *types.Basic) string {
	lo, hi, ok := intRange(b)
	if !ok {
		return t
	}
	m := pow2(bitsOf(b)).String()
	n := e.fresh("ar", "Int")
	e.assert(eq(n, t))
	return "(ite (> " + n + " " + smtInt(hi) + ") (- " + n + " " + m + ") (ite (< " + n + " " + smtInt(lo) + ") (+ " + n + " " + m + ") " + n + "))"
}

func isConstTerm(t string) (*big.Int, bool) {
	s := t
	neg := false
	if strings.HasPrefix(s, "(- ") && strings.HasSuffix(s, ")") {
		s = s[3 : len(s)-1]
		neg = true
	}
	v, ok := new(big.Int).SetString(s, 10)
	if !ok {
		return nil, false
	}
	if neg {
		v.Neg(v)
	}
	return v, true
}

func (e *Enc) encBinOp(fr *Frame, st *State, in *ssa.BinOp) *Val {
	x := e.val(fr, in.X)
	y := e.val(fr, in.Y)
	rt := in.Type()
	boolRes := func(t string) *Val { return &Val{T: rt, L: []Sc{{t, "Bool"}}} }
	xt := in.X.Type().Underlying()
	switch in.Op {
	case token.EQL, token.NEQ:
		t := e.valsEqual(x, y, in.X.Type())
		if in.Op == token.NEQ {
			t = not(t)
		}
		return boolRes(t)
	}
	if b, ok := xt.(*types.Basic); ok {
		switch {
		case b.Info()&types.IsInteger != 0:
			a, c := x.L[0].T, y.L[0].T
			switch in.Op {
			case token.LSS:
				return boolRes("(< " + a + " " + c + ")")
			case token.LEQ:
				return boolRes("(<= " + a + " " + c + ")")
			case token.GTR:
				return boolRes("(> " + a + " " + c + ")")
			case token.GEQ:
				return boolRes("(>= " + a + " " + c + ")")
			}
			rb := rt.Underlying().(*types.Basic)
			var t string
			switch in.Op {
			case token.ADD:
				t = e.wrap1("(+ "+a+" "+c+")", rb)
			case token.SUB:
				t = e.wrap1("(- "+a+" "+c+")", rb)
			case token.MUL:
				t = e.wrap("(* "+a+" "+c+")", rb)
			case token.QUO:
				e.safety(fr, st, "div", not(eq(c, "0")), "integer division by zero", in.Pos())
				if isUnsigned(rb) {
					t = "(div " + a + " " + c + ")"
				} else {
					// truncated division
					q := "(ite (>= " + a + " 0) (ite (> " + c + " 0) (div " + a + " " + c + ") (- (div " + a + " (- " + c + ")))) (ite (> " + c + " 0) (- (div (- " + a + ") " + c + ")) (div (- " + a + ") (- " + c + "))))"
					t = e.wrap(q, rb) // MinInt / -1 wraps
				}
			case token.REM:
				e.safety(fr, st, "div", not(eq(c, "0")), "integer modulo by zero", in.Pos())
				if isUnsigned(rb) {
					t = "(mod " + a + " " + c + ")"
				} else {
					t = "(ite (>= " + a + " 0) (mod " + a + " " + c + ") (- (mod (- " + a + ") " + c + ")))"
				}
			case token.SHL:
				if cv, ok := isConstTerm(c); ok && cv.IsInt64() && cv.Int64() < 256 {
					t = e.wrap("(* "+a+" "+pow2(cv.Int64()).String()+")", rb)
				}
			case token.SHR:
				if cv, ok := isConstTerm(c); ok && cv.IsInt64() && cv.Int64() < 256 {
					t = "(div " + a + " " + pow2(cv.Int64()).String() + ")"
				}
			case token.AND:
				if cv, ok := isConstTerm(c); ok && isUnsigned(rb) {
					if m := new(big.Int).Add(cv, big.NewInt(1)); m.BitLen() > 0 && new(big.Int).And(m, cv).Sign() == 0 {
						t = "(mod " + a + " " + m.String() + ")"
					}
				}
			}
			if t == "" {
				// bitwise on symbolic operands: uninterpreted but functional
				f := e.declFun(sym(fmt.Sprintf("bitop!%s!%s", in.Op, rb.Name())), []string{"Int", "Int"}, "Int")
				t = "(" + f + " " + a + " " + c + ")"
				v := &Val{T: rt, L: []Sc{{e.define(fr.prefix+in.Name(), "Int", t), "Int"}}}
				e.typeAssume(st, Leaf{"", "Int", rt}, v.L[0].T)
				e.notes = append(e.notes, fmt.Sprintf("bitwise %s on symbolic operands treated as uninterpreted in %s", in.Op, fr.fn))
				return v
			}
			return &Val{T: rt, L: []Sc{{e.define(fr.prefix+in.Name(), "Int", t), "Int"}}}
		case b.Info()&types.IsBoolean != 0:
			switch in.Op {
			case token.LAND, token.AND:
				return boolRes(and(x.L[0].T, y.L[0].T))
			case token.LOR, token.OR:
				return boolRes(or(x.L[0].T, y.L[0].T))
			}
		case b.Info()&types.IsString != 0:
			switch in.Op {
			case token.ADD:
				f := e.declFun("strcat", []string{"Str", "Str"}, "Str")
				e.declFun("strlen", []string{"Str"}, "Int")
				t := "(" + f + " " + x.L[0].T + " " + y.L[0].T + ")"
				e.assert("(= (strlen " + t + ") (+ (strlen " + x.L[0].T + ") (strlen " + y.L[0].T + ")))")
				return &Val{T: rt, L: []Sc{{t, "Str"}}}
			case token.LSS, token.LEQ, token.GTR, token.GEQ:
				f := e.declFun("strless", []string{"Str", "Str"}, "Bool")
				a, c := x.L[0].T, y.L[0].T
				switch in.Op {
				case token.LSS:
					return boolRes("(" + f + " " + a + " " + c + ")")
				case token.GTR:
					return boolRes("(" + f + " " + c + " " + a + ")")
				case token.LEQ:
					return boolRes(not("(" + f + " " + c + " " + a + ")"))
				case token.GEQ:
					return boolRes(not("(" + f + " " + a + " " + c + ")"))
				}
			}
		case b.Info()&types.IsFloat != 0:
			// floating point is opaque
			f := e.declFun(sym(fmt.Sprintf("fltop!%s", in.Op)), []string{"Flt", "Flt"}, leafSortOf(e, rt))
			return &Val{T: rt, L: []Sc{{"(" + f + " " + x.L[0].T + " " + y.L[0].T + ")", leafSortOf(e, rt)}}}
		}
	}
	e.unsupportedf("binary op %s on %s in %s", in.Op, typeStr(in.X.Type()), fr.fn)
	return e.freshVal(st, fr.prefix+in.Name(), rt)
}

func leafSortOf(e *Enc, t types.Type) string {
	s := e.TI.shape(t)
	if len(s) == 1 {
		return s[0].Sort
	}
	return "Unk"
}

// valsEqual: Go == on values of static type t.
func (e *Enc) valsEqual(x, y *Val, t types.Type) string {
	if x.Loc != nil || y.Loc != nil || x.Clos != nil || y.Clos != nil {
		// closures compare only with nil
		if x.Clos != nil && len(y.L) == 1 {
			return "false"
		}
		if y.Clos != nil && len(x.L) == 1 {
			return "false"
		}
		if x.Loc != nil && y.Loc == nil && y.Clos == nil && len(y.L) == 1 && y.L[0].T == "0" {
			if x.Loc.Nullable {
				return eq(x.Loc.Ref, "0")
			}
			return "false"
		}
		if y.Loc != nil && x.Loc == nil && x.Clos == nil && len(x.L) == 1 && x.L[0].T == "0" {
			if y.Loc.Nullable {
				return eq(y.Loc.Ref, "0")
			}
			return "false"
		}
		e.unsupportedf("comparison of interior pointers / closures")
		return e.fresh("cmp", "Bool")
	}
	// interface vs concrete comparisons are normalised by SSA (MakeInterface), so shapes agree
	if len(x.L) != len(y.L) {
		// nil constant against slice/interface/etc.
		if len(y.L) == 1 && y.L[0].T == "0" {
			return eq(x.L[0].T, "0")
		}
		if len(x.L) == 1 && x.L[0].T == "0" {
			return eq(y.L[0].T, "0")
		}
		e.unsupportedf("comparison of differently shaped values")
		return e.fresh("cmp", "Bool")
	}
	switch t.Underlying().(type) {
	case *types.Slice:
		// only comparison with nil is legal
		return eq(x.L[0].T, y.L[0].T)
	case *types.Interface:
		// comparison with the nil interface looks at the type tag only (a nil interface has no payload)
		if len(x.L) == 2 {
			if y.L[0].T == "0" && y.L[1].T == "0" {
				return eq(x.L[0].T, "0")
			}
			if x.L[0].T == "0" && x.L[1].T == "0" {
				return eq(y.L[0].T, "0")
			}
		}
	}
	var cs []string
	for i := range x.L {
		cs = append(cs, eq(x.L[i].T, y.L[i].T))
	}
	return and(cs...)
}

func (e *Enc) encFieldAddr(fr *Frame, st *State, in *ssa.FieldAddr) *Val {
	x := e.val(fr, in.X)
	pt := in.X.Type().Underlying().(*types.Pointer)
	stt := pt.Elem().Underlying().(*types.Struct)
	f := stt.Field(in.Field)
	var base *Loc
	if x.Loc != nil {
		if x.Loc.Nullable {
			e.nilCheck(fr, st, x, in.Pos(), "field "+f.Name())
		}
		base = x.Loc
	} else {
		e.nilCheck(fr, st, x, in.Pos(), "field "+f.Name())
		base = e.ptrLoc(x)
		if base.Kind != 'F' {
			// opaque struct: fields are not modelled
			e.unsupportedf("field access %s on opaque type %s", f.Name(), typeStr(pt.Elem()))
			return &Val{T: in.Type(), Loc: &Loc{Kind: 'P', Key: "opaquefield|" + typeStr(pt.Elem()) + "." + f.Name(), Ref: base.Ref, T: f.Type()}}
		}
	}
	nl := *base
	nl.Path = base.Path + "." + f.Name()
	nl.T = f.Type()
	return &Val{T: in.Type(), Loc: &nl}
}

func (e *Enc) encIndexAddr(fr *Frame, st *State, in *ssa.IndexAddr) *Val {
	x := e.val(fr, in.X)
	idx := e.val(fr, in.Index).L[0].T
	switch xt := in.X.Type().Underlying().(type) {
	case *types.Slice:
		if len(x.L) != 4 {
			break
		}
		e.safety(fr, st, "index", "(and (<= 0 "+idx+") (< "+idx+" "+x.L[2].T+"))", "slice index out of range", in.Pos())
		return &Val{T: in.Type(), Loc: &Loc{Kind: 'S', Key: typeStr(xt.Elem()), Ref: x.L[0].T, Idx: e.elemIdx(x.L[1].T, idx), T: xt.Elem()}}
	case *types.Pointer:
		arr, ok := xt.Elem().Underlying().(*types.Array)
		if !ok {
			break
		}
		if x.Loc != nil {
			// interior array (struct field of array type): only single-leaf element arrays
			e.unsupportedf("index into array-typed struct field in %s", fr.fn)
			break
		}
		e.nilCheck(fr, st, x, in.Pos(), "array index")
		e.safety(fr, st, "index", fmt.Sprintf("(and (<= 0 %s) (< %s %d))", idx, idx, arr.Len()), "array index out of range", in.Pos())
		return &Val{T: in.Type(), Loc: &Loc{Kind: 'S', Key: typeStr(arr.Elem()), Ref: x.L[0].T, Idx: idx, T: arr.Elem()}}
	}
	e.unsupportedf("IndexAddr on %s in %s", typeStr(in.X.Type()), fr.fn)
	return &Val{T: in.Type(), Loc: &Loc{Kind: 'P', Key: "?", Ref: e.fresh("unk", "Int"), T: in.Type().(*types.Pointer).Elem()}}
}

// elemIdx: the cell index off+i of element i of a slice with offset off.
func (e *Enc) elemIdx(off, i string) string {
	return addT(off, i)
}

func addT(a, b string) string {
	if a == "0" {
		return b
	}
	if b == "0" {
		return a
	}
	return "(+ " + a + " " + b + ")"
}

func (e *Enc) encIndex(fr *Frame, st *State, in *ssa.Index) *Val {
	x := e.val(fr, in.X)
	idx := e.val(fr, in.Index).L[0].T
	switch xt := in.X.Type().Underlying().(type) {
	case *types.Array:
		if len(x.L) == 1 {
			e.safety(fr, st, "index", fmt.Sprintf("(and (<= 0 %s) (< %s %d))", idx, idx, xt.Len()), "array index out of range", in.Pos())
			lf := e.TI.shape(xt.Elem())
			if len(lf) == 1 && strings.HasPrefix(x.L[0].S, "(Array ") {
				t := "(select " + x.L[0].T + " " + idx + ")"
				e.typeAssume(st, lf[0], t)
				return &Val{T: in.Type(), L: []Sc{{t, lf[0].Sort}}}
			}
		}
	case *types.Basic: // string index
		f := e.declFun("strat", []string{"Str", "Int"}, "Int")
		e.declFun("strlen", []string{"Str"}, "Int")
		e.safety(fr, st, "index", "(and (<= 0 "+idx+") (< "+idx+" (strlen "+x.L[0].T+")))", "string index out of range", in.Pos())
		t := "(" + f + " " + x.L[0].T + " " + idx + ")"
		e.assert("(and (<= 0 " + t + ") (<= " + t + " 255))")
		return &Val{T: in.Type(), L: []Sc{{t, "Int"}}}
	}
	e.unsupportedf("Index on %s in %s", typeStr(in.X.Type()), fr.fn)
	return e.freshVal(st, fr.prefix+in.Name(), in.Type())
}

func (e *Enc) encConvert(fr *Frame, st *State, in *ssa.Convert) *Val {
	x := e.val(fr, in.X)
	from, to := in.X.Type().Underlying(), in.Type().Underlying()
	fb, fok := from.(*types.Basic)
	tb, tok := to.(*types.Basic)
	if fok && tok {
		switch {
		case fb.Info()&types.IsInteger != 0 && tb.Info()&types.IsInteger != 0:
			flo, fhi, _ := intRange(fb)
			tlo, thi, _ := intRange(tb)
			if flo != nil && tlo != nil && flo.Cmp(tlo) >= 0 && fhi.Cmp(thi) <= 0 {
				return &Val{T: in.Type(), L: x.L}
			}
			return &Val{T: in.Type(), L: []Sc{{e.define(fr.prefix+in.Name(), "Int", e.wrap(x.L[0].T, tb)), "Int"}}}
		case fb.Info()&types.IsString != 0 && tb.Info()&types.IsString != 0:
			return &Val{T: in.Type(), L: x.L}
		case fb.Info()&types.IsInteger != 0 && tb.Info()&types.IsFloat != 0:
			f := e.declFun("int2flt", []string{"Int"}, "Flt")
			return &Val{T: in.Type(), L: []Sc{{"(" + f + " " + x.L[0].T + ")", "Flt"}}}
		case fb.Info()&types.IsFloat != 0 && tb.Info()&types.IsFloat != 0:
			return &Val{T: in.Type(), L: x.L}
		case fb.Info()&types.IsFloat != 0 && tb.Info()&types.IsInteger != 0:
			f := e.declFun("flt2int", []string{"Flt"}, "Int")
			t := e.wrap("("+f+" "+x.L[0].T+")", tb)
			return &Val{T: in.Type(), L: []Sc{{t, "Int"}}}
		case fb.Info()&types.IsInteger != 0 && tb.Info()&types.IsString != 0:
			f := e.declFun("rune2str", []string{"Int"}, "Str")
			return &Val{T: in.Type(), L: []Sc{{"(" + f + " " + x.L[0].T + ")", "Str"}}}
		}
	}
	// string <-> []byte
	if fok && fb.Info()&types.IsString != 0 {
		if sl, ok := to.(*types.Slice); ok {
			if eb, ok := sl.Elem().Underlying().(*types.Basic); ok && eb.Kind() == types.Uint8 {
				e.declFun("strlen", []string{"Str"}, "Int")
				f := e.declFun("str2bytes", []string{"Str"}, "(Array Int Int)")
				r := e.allocRef(st, "bytes")
				key, sort := "S|"+typeStr(sl.Elem())+"|", "(Array Int (Array Int Int))"
				h := e.heapGet(st, key, sort)
				e.withRef(r, func() { e.heapSet(st, key, sort, "(store "+h+" "+r+" ("+f+" "+x.L[0].T+"))") })
				ln := "(strlen " + x.L[0].T + ")"
				e.assert("(<= 0 " + ln + ")")
				// []byte(s) has the abstract content strBytes(s) (when the prelude declares that ghost function)
				if g, ok := e.DB.Ghosts["strBytes"]; ok && len(g.Params) == 1 && g.Body == nil {
					if n, _, err := e.ghostSymbol(g); err == nil {
						e.assert(eq(e.bseqTerm("("+f+" "+x.L[0].T+")", "0", ln), "("+n+" "+x.L[0].T+")"))
						// and back: string([]byte(s)) == s
						if g2, ok := e.DB.Ghosts["strOfBytes"]; ok && len(g2.Params) == 1 && g2.Body == nil {
							if n2, _, err := e.ghostSymbol(g2); err == nil {
								e.assert(eq("("+n2+" ("+n+" "+x.L[0].T+"))", x.L[0].T))
							}
						}
					}
				}
				return &Val{T: in.Type(), L: []Sc{{r, "Int"}, {"0", "Int"}, {ln, "Int"}, {ln, "Int"}}}
			}
		}
	}
	if tok && tb.Info()&types.IsString != 0 {
		if sl, ok := from.(*types.Slice); ok && len(x.L) == 4 {
			if eb, ok := sl.Elem().Underlying().(*types.Basic); ok && eb.Kind() == types.Uint8 {
				e.declFun("strlen", []string{"Str"}, "Int")
				f := e.declFun("bytes2str", []string{"(Array Int Int)", "Int", "Int"}, "Str")
				key, sort := "S|"+typeStr(sl.Elem())+"|", "(Array Int (Array Int Int))"
				h := e.heapGet(st, key, sort)
				t := "(" + f + " (select " + h + " " + x.L[0].T + ") " + x.L[1].T + " " + x.L[2].T + ")"
				e.assert("(= (strlen " + t + ") " + x.L[2].T + ")")
				// string(b) is a function of the abstract content of b (when the prelude declares ghost func strOfBytes)
				if g, ok := e.DB.Ghosts["strOfBytes"]; ok && len(g.Params) == 1 && g.Body == nil {
					if n, _, err := e.ghostSymbol(g); err == nil {
						bs := e.bseqTerm("(select "+h+" "+x.L[0].T+")", x.L[1].T, x.L[2].T)
						e.assert(eq(t, "("+n+" "+bs+")"))
						// and back: []byte(string(b)) has the content of b
						if g2, ok := e.DB.Ghosts["strBytes"]; ok && len(g2.Params) == 1 && g2.Body == nil {
							if n2, _, err := e.ghostSymbol(g2); err == nil {
								e.assert(eq("("+n2+" "+t+")", bs))
							}
						}
					}
				}
				return &Val{T: in.Type(), L: []Sc{{t, "Str"}}}
			}
		}
	}
	// pointer <-> unsafe.Pointer etc.
	if len(x.L) == len(e.TI.shape(in.Type())) && x.Loc == nil && x.Clos == nil {
		if _, isPtr := to.(*types.Pointer); isPtr {
			e.unsupportedf("unsafe pointer conversion in %s", fr.fn)
		}
		return &Val{T: in.Type(), L: x.L}
	}
	e.unsupportedf("conversion %s -> %s in %s", typeStr(in.X.Type()), typeStr(in.Type()), fr.fn)
	return e.freshVal(st, fr.prefix+in.Name(), in.Type())
}

// ---------- interfaces ----------

func isRefLike(t types.Type) bool {
	switch t.Underlying().(type) {
	case *types.Pointer, *types.Map, *types.Chan, *types.Signature:
		return true
	}
	return false
}

func (e *Enc) boxFuns(t types.Type) (box string, unbox []string) {
	leaves := e.TI.shape(t)
	var sorts []string
	for _, l := range leaves {
		sorts = append(sorts, l.Sort)
	}
	box = e.declFun(sym("box!"+typeStr(t)), sorts, "Int")
	for _, l := range leaves {
		unbox = append(unbox, e.declFun(sym("unbox!"+typeStr(t)+"!"+l.Path), []string{"Int"}, l.Sort))
	}
	return
}

func (e *Enc) makeInterface(st *State, x *Val, xt types.Type, it types.Type) *Val {
	if _, isIface := xt.Underlying().(*types.Interface); isIface {
		y := *x
		y.T = it
		return &y
	}
	tag := fmt.Sprint(e.TI.tagOf(xt))
	if x.Loc != nil && x.Clos == nil && x.Loc.Kind == 'F' && !x.Loc.Nullable {
		// &s.f converted to an interface, f a struct of a type declared `immutable`: nobody writes through the pointer, so a
		// freshly allocated object holding a copy of the field's current value stands for it
		if pt, ok := xt.Underlying().(*types.Pointer); ok && e.DB.Immutable[typeStr(pt.Elem())] {
			if _, isStruct := pt.Elem().Underlying().(*types.Struct); isStruct {
				if _, opq := e.TI.opaqueSort(pt.Elem()); !opq {
					r := e.allocRef(st, "iview")
					cur := e.loadLoc(st, x.Loc)
					dst := e.refLoc(r, pt.Elem())
					e.storeLoc(st, dst, cur)
					return &Val{T: it, L: []Sc{{tag, "Int"}, {r, "Int"}}}
				}
			}
		}
	}
	if x.Clos != nil || x.Loc != nil {
		// closure boxed into interface: opaque
		e.unsupportedf("closure or interior pointer converted to interface")
		return &Val{T: it, L: []Sc{{tag, "Int"}, {e.fresh("box", "Int"), "Int"}}}
	}
	if isRefLike(xt) && len(x.L) == 1 {
		return &Val{T: it, L: []Sc{{tag, "Int"}, {x.L[0].T, "Int"}}}
	}
	if len(x.L) == 0 { // empty struct
		return &Val{T: it, L: []Sc{{tag, "Int"}, {"0", "Int"}}}
	}
	box, unbox := e.boxFuns(xt)
	var args []string
	for _, l := range x.L {
		args = append(args, l.T)
	}
	b := "(" + box + " " + strings.Join(args, " ") + ")"
	bn := e.define("box", "Int", b)
	for i, u := range unbox {
		e.assert(eq("("+u+" "+bn+")", x.L[i].T))
	}
	return &Val{T: it, L: []Sc{{tag, "Int"}, {bn, "Int"}}}
}

func (e *Enc) unboxAs(st *State, pay string, t types.Type) *Val {
	if isRefLike(t) {
		return &Val{T: t, L: []Sc{{pay, "Int"}}}
	}
	leaves := e.TI.shape(t)
	if len(leaves) == 0 {
		return &Val{T: t}
	}
	_, unbox := e.boxFuns(t)
	v := &Val{T: t}
	for i, l := range leaves {
		tm := "(" + unbox[i] + " " + pay + ")"
		v.L = append(v.L, Sc{tm, l.Sort})
		e.typeAssume(st, l, tm)
	}
	return v
}

// implementsTerm: Bool term "dynamic type tag implements interface it".
func (e *Enc) implementsTerm(tag string, it types.Type) string {
	iface := it.Underlying().(*types.Interface)
	if n, ok := isConstTerm(tag); ok {
		if n.Sign() == 0 {
			return "false"
		}
		ct := e.TI.tagTyp[int(n.Int64())]
		if ct != nil && types.Implements(ct, iface) {
			return "true"
		}
		return "false"
	}
	f := e.declFun(sym("impl!"+typeStr(it)), []string{"Int"}, "Bool")
	e.assert("(not (" + f + " 0))")
	e.dynImpl[typeStr(it)] = true
	return "(" + f + " " + tag + ")"
}

func (e *Enc) encTypeAssert(fr *Frame, st *State, in *ssa.TypeAssert) *Val {
	x := e.val(fr, in.X)
	if len(x.L) != 2 {
		e.unsupportedf("type assertion on malformed interface value in %s", fr.fn)
		return e.freshVal(st, fr.prefix+in.Name(), in.Type())
	}
	tag, pay := x.L[0].T, x.L[1].T
	var ok string
	var res *Val
	if _, isIface := in.AssertedType.Underlying().(*types.Interface); isIface {
		ok = e.implementsTerm(tag, in.AssertedType)
		res = &Val{T: in.AssertedType, L: []Sc{{tag, "Int"}, {pay, "Int"}}}
	} else {
		ok = eq(tag, fmt.Sprint(e.TI.tagOf(in.AssertedType)))
		res = e.unboxAs(st, pay, in.AssertedType)
	}
	if in.CommaOk {
		// value is zero when !ok
		out := &Val{T: in.Type()}
		z := e.zeroVal(in.AssertedType)
		for i := range res.L {
			out.L = append(out.L, Sc{ite(ok, res.L[i].T, z.L[i].T), res.L[i].S})
		}
		out.L = append(out.L, Sc{ok, "Bool"})
		return out
	}
	e.safety(fr, st, "assert", ok, "type assertion to "+typeStr(in.AssertedType), in.Pos())
	return res
}

// ---------- slices ----------

func (e *Enc) encMakeSlice(fr *Frame, st *State, in *ssa.MakeSlice) *Val {
	ln := e.val(fr, in.Len).L[0].T
	cp := e.val(fr, in.Cap).L[0].T
	e.safety(fr, st, "makeslice", "(and (<= 0 "+ln+") (<= "+ln+" "+cp+"))", "makeslice: len out of range", in.Pos())
	r := e.allocRef(st, "slice")
	sl := in.Type().Underlying().(*types.Slice)
	for _, lf := range e.TI.shape(sl.Elem()) {
		key := "S|" + typeStr(sl.Elem()) + "|" + lf.Path
		sort := "(Array Int (Array Int " + lf.Sort + "))"
		h := e.heapGet(st, key, sort)
		e.withRef(r, func() {
			e.heapSet(st, key, sort, "(store "+h+" "+r+" "+e.zeroArray(lf.Sort)+")")
		})
	}
	return &Val{T: in.Type(), L: []Sc{{r, "Int"}, {"0", "Int"}, {ln, "Int"}, {cp, "Int"}}}
}

func (e *Enc) encSlice(fr *Frame, st *State, in *ssa.Slice) *Val {
	x := e.val(fr, in.X)
	var lo, hi, mx string
	if in.Low != nil {
		lo = e.val(fr, in.Low).L[0].T
	} else {
		lo = "0"
	}
	switch xt := in.X.Type().Underlying().(type) {
	case *types.Slice:
		if len(x.L) != 4 {
			break
		}
		base, off, ln, cp := x.L[0].T, x.L[1].T, x.L[2].T, x.L[3].T
		_ = ln
		if in.High != nil {
			hi = e.val(fr, in.High).L[0].T
		} else {
			hi = ln
		}
		if in.Max != nil {
			mx = e.val(fr, in.Max).L[0].T
		} else {
			mx = cp
		}
		e.safety(fr, st, "slice", "(and (<= 0 "+lo+") (<= "+lo+" "+hi+") (<= "+hi+" "+mx+") (<= "+mx+" "+cp+"))", "slice bounds out of range", in.Pos())
		nl := e.define(fr.prefix+in.Name()+"len", "Int", "(- "+hi+" "+lo+")")
		nc := e.define(fr.prefix+in.Name()+"cap", "Int", "(- "+mx+" "+lo+")")
		return &Val{T: in.Type(), L: []Sc{{base, "Int"}, {addT(off, lo), "Int"}, {nl, "Int"}, {nc, "Int"}}}
	case *types.Pointer:
		arr, ok := xt.Elem().Underlying().(*types.Array)
		if !ok || x.Loc != nil {
			break
		}
		n := fmt.Sprint(arr.Len())
		if in.High != nil {
			hi = e.val(fr, in.High).L[0].T
		} else {
			hi = n
		}
		if in.Max != nil {
			mx = e.val(fr, in.Max).L[0].T
		} else {
			mx = n
		}
		e.safety(fr, st, "slice", "(and (<= 0 "+lo+") (<= "+lo+" "+hi+") (<= "+hi+" "+mx+") (<= "+mx+" "+n+"))", "slice bounds out of range", in.Pos())
		return &Val{T: in.Type(), L: []Sc{{x.L[0].T, "Int"}, {lo, "Int"}, {"(- " + hi + " " + lo + ")", "Int"}, {"(- " + mx + " " + lo + ")", "Int"}}}
	case *types.Basic: // string slicing
		e.declFun("strlen", []string{"Str"}, "Int")
		f := e.declFun("substr", []string{"Str", "Int", "Int"}, "Str")
		if in.High != nil {
			hi = e.val(fr, in.High).L[0].T
		} else {
			hi = "(strlen " + x.L[0].T + ")"
		}
		e.safety(fr, st, "slice", "(and (<= 0 "+lo+") (<= "+lo+" "+hi+") (<= "+hi+" (strlen "+x.L[0].T+")))", "string slice bounds out of range", in.Pos())
		t := "(" + f + " " + x.L[0].T + " " + lo + " " + hi + ")"
		e.assert("(= (strlen " + t + ") (- " + hi + " " + lo + "))")
		return &Val{T: in.Type(), L: []Sc{{t, "Str"}}}
	}
	e.unsupportedf("Slice on %s in %s", typeStr(in.X.Type()), fr.fn)
	return e.freshVal(st, fr.prefix+in.Name(), in.Type())
}

// ---------- maps ----------

func (e *Enc) mapKeys(mt types.Type) (ksort string, domKey, domSort string, vals []Leaf, ok bool) {
	m := mt.Underlying().(*types.Map)
	ks := e.TI.shape(m.Key())
	if len(ks) != 1 {
		return "", "", "", nil, false
	}
	ksort = ks[0].Sort
	domKey = "MD|" + typeStr(mt)
	domSort = "(Array Int (Array " + ksort + " Bool))"
	return ksort, domKey, domSort, e.TI.shape(m.Elem()), true
}

func mapValKey(mt types.Type, lf Leaf, ksort string) (string, string) {
	return "MV|" + typeStr(mt) + "|" + lf.Path, "(Array Int (Array " + ksort + " " + lf.Sort + "))"
}

func (e *Enc) mapInit(st *State, mt types.Type, r string) {
	ksort, dk, ds, _, ok := e.mapKeys(mt)
	if !ok {
		e.unsupportedf("map with composite key %s", typeStr(mt))
		return
	}
	h := e.heapGet(st, dk, ds)
	e.withRef(r, func() { e.heapSet(st, dk, ds, "(store "+h+" "+r+" ((as const (Array "+ksort+" Bool)) false))") })
}

func (e *Enc) mapKeyTerm(k *Val) string {
	if len(k.L) != 1 {
		return "0"
	}
	return k.L[0].T
}

func (e *Enc) encLookup(fr *Frame, st *State, in *ssa.Lookup) *Val {
	x := e.val(fr, in.X)
	k := e.val(fr, in.Index)
	if _, isMap := in.X.Type().Underlying().(*types.Map); !isMap {
		// string index via Lookup
		e.unsupportedf("Lookup on string in %s", fr.fn)
		return e.freshVal(st, fr.prefix+in.Name(), in.Type())
	}
	mt := in.X.Type()
	_, dk, ds, vleaves, ok := e.mapKeys(mt)
	if !ok || len(x.L) != 1 {
		e.unsupportedf("map with composite key %s", typeStr(mt))
		return e.freshVal(st, fr.prefix+in.Name(), in.Type())
	}
	ksort := e.TI.shape(mt.Underlying().(*types.Map).Key())[0].Sort
	kt := e.mapKeyTerm(k)
	dom := e.heapGet(st, dk, ds)
	// nil map lookups yield zero: nil map has ref 0; we assume dom[0] is empty
	present := e.define(fr.prefix+in.Name()+"ok", "Bool", "(and (not (= "+x.L[0].T+" 0)) (select (select "+dom+" "+x.L[0].T+") "+kt+"))")
	out := &Val{}
	for _, lf := range vleaves {
		key, sort := mapValKey(mt, lf, ksort)
		h := e.heapGet(st, key, sort)
		t := "(select (select " + h + " " + x.L[0].T + ") " + kt + ")"
		e.typeAssume(st, lf, t)
		e.entryRefFact(key, sort, lf, x.L[0].T, kt)
		out.L = append(out.L, Sc{ite(present, t, e.zero(lf.Sort)), lf.Sort})
	}
	if in.CommaOk {
		out.T = in.Type()
		out.L = append(out.L, Sc{present, "Bool"})
	} else {
		out.T = in.Type()
	}
	return out
}

func (e *Enc) encMapUpdate(fr *Frame, st *State, in *ssa.MapUpdate) {
	m := e.val(fr, in.Map)
	k := e.val(fr, in.Key)
	v := e.val(fr, in.Value)
	mt := in.Map.Type()
	ksort, dk, ds, vleaves, ok := e.mapKeys(mt)
	if !ok || len(m.L) != 1 {
		e.unsupportedf("map with composite key %s", typeStr(mt))
		return
	}
	e.safety(fr, st, "nilmap", not(eq(m.L[0].T, "0")), "assignment to entry in nil map", in.Pos())
	e.mapStore(st, mt, m.L[0].T, e.mapKeyTerm(k), v, ksort, dk, ds, vleaves)
}

func (e *Enc) mapStore(st *State, mt types.Type, m, kt string, v *Val, ksort, dk, ds string, vleaves []Leaf) {
	dom := e.heapGet(st, dk, ds)
	e.withRef(m, func() { e.heapSet(st, dk, ds, "(store "+dom+" "+m+" (store (select "+dom+" "+m+") "+kt+" true))") })
	if len(v.L) != len(vleaves) {
		e.unsupportedf("map value shape mismatch for %s", typeStr(mt))
		return
	}
	for i, lf := range vleaves {
		key, sort := mapValKey(mt, lf, ksort)
		h := e.heapGet(st, key, sort)
		e.withRef(m, func() {
			e.heapSet(st, key, sort, "(store "+h+" "+m+" (store (select "+h+" "+m+") "+kt+" "+v.L[i].T+"))")
		})
	}
}

func (e *Enc) mapDelete(st *State, mt types.Type, m, kt string) {
	_, dk, ds, _, ok := e.mapKeys(mt)
	if !ok {
		e.unsupportedf("map with composite key %s", typeStr(mt))
		return
	}
	dom := e.heapGet(st, dk, ds)
	// delete on nil map is a no-op; ref 0 has an empty domain by convention, storing false keeps it empty
	e.withRef(m, func() { e.heapSet(st, dk, ds, "(store "+dom+" "+m+" (store (select "+dom+" "+m+") "+kt+" false))") })
}

// ---------- range ----------

type rangeState struct {
	kind    string // "map" or "string"
	mt      types.Type
	m       string
	visKey  string // heap key of the ghost visited set
	visSort string
}

func (e *Enc) encRange(fr *Frame, st *State, in *ssa.Range) *Val {
	x := e.val(fr, in.X)
	if _, isMap := in.X.Type().Underlying().(*types.Map); isMap && len(x.L) == 1 {
		ksort, _, _, _, ok := e.mapKeys(in.X.Type())
		if !ok {
			e.unsupportedf("range over map with composite key")
			return &Val{T: in.Type()}
		}
		// ghost visited set, one per Range instruction instance
		key := fmt.Sprintf("RV|%s%s", fr.prefix, in.Name())
		sort := "(Array " + ksort + " Bool)"
		e.heapGet(st, key, sort)
		e.heapSet(st, key, sort, "((as const "+sort+") false)")
		return &Val{T: in.Type(), L: []Sc{{x.L[0].T, "Int"}}}
	}
	e.unsupportedf("range over string in %s", fr.fn)
	return &Val{T: in.Type()}
}

func (e *Enc) encNext(fr *Frame, st *State, in *ssa.Next) *Val {
	rng, ok := in.Iter.(*ssa.Range)
	if !ok || in.IsString {
		e.unsupportedf("Next over string in %s", fr.fn)
		return e.freshVal(st, fr.prefix+in.Name(), in.Type())
	}
	it := e.val(fr, in.Iter)
	if len(it.L) != 1 {
		return e.freshVal(st, fr.prefix+in.Name(), in.Type())
	}
	mt := rng.X.Type()
	ksort, dk, ds, vleaves, _ := e.mapKeys(mt)
	m := it.L[0].T
	key := fmt.Sprintf("RV|%s%s", fr.prefix, rng.Name())
	vsort := "(Array " + ksort + " Bool)"
	vis := e.heapGet(st, key, vsort)
	dom := e.heapGet(st, dk, ds)
	okc := e.fresh(fr.prefix+in.Name()+"!ok", "Bool")
	k := e.fresh(fr.prefix+in.Name()+"!k", ksort)
	domm := "(select " + dom + " " + m + ")"
	// ok => k in dom \ visited ; !ok => forall k. dom k => visited k
	e.assert(implies(okc, "(and (not (= "+m+" 0)) (select "+domm+" "+k+") (not (select "+vis+" "+k+")))"))
	qv := "(forall ((qk " + ksort + ")) (=> (and (not (= " + m + " 0)) (select " + domm + " qk)) (select " + vis + " qk)))"
	e.assert(implies(not(okc), qv))
	e.heapSet(st, key, vsort, "(store "+vis+" "+k+" true)")
	out := &Val{T: in.Type()}
	out.L = append(out.L, Sc{okc, "Bool"})
	mk := mt.Underlying().(*types.Map)
	kl := e.TI.shape(mk.Key())[0]
	e.typeAssume(st, kl, k)
	out.L = append(out.L, Sc{k, ksort})
	for _, lf := range vleaves {
		hk, hs := mapValKey(mt, lf, ksort)
		h := e.heapGet(st, hk, hs)
		t := "(select (select " + h + " " + m + ") " + k + ")"
		e.typeAssume(st, lf, t)
		e.entryRefFact(hk, hs, lf, m, k)
		out.L = append(out.L, Sc{t, lf.Sort})
	}
	return out
}

// ---------- defers ----------

func (e *Enc) encDefer(fr *Frame, st *State, in *ssa.Defer) {
	d := &deferRec{flag: st.reach, call: in, fr: fr}
	cc := in.Common()
	if !cc.IsInvoke() {
		d.fn = e.val(fr, cc.Value)
	}
	for _, a := range cc.Args {
		d.args = append(d.args, e.val(fr, a))
	}
	st.defers = append(st.defers, d)
}

func (e *Enc) encRunDefers(fr *Frame, st *State, in *ssa.RunDefers) {
	// run this frame's defers in LIFO order, each guarded by its registration flag
	var keep []*deferRec
	var mine []*deferRec
	for _, d := range st.defers {
		if d.fr == fr {
			mine = append(mine, d)
		} else {
			keep = append(keep, d)
		}
	}
	st.defers = keep
	for i := len(mine) - 1; i >= 0; i-- {
		d := mine[i]
		// state split: executed iff flag
		run := st.clone()
		run.reach = and(st.reach, d.flag)
		skip := st.clone()
		skip.reach = and(st.reach, not(d.flag))
		if run.reach != "false" {
			e.callCommon(fr, run, d.call.Common(), d.fn, d.args, d.call.Pos(), nil)
		}
		var sts []*State
		var conds []string
		if run.reach != "false" {
			sts = append(sts, run)
			conds = append(conds, run.reach)
		}
		if skip.reach != "false" {
			sts = append(sts, skip)
			conds = append(conds, skip.reach)
		}
		if len(sts) == 0 {
			st.reach = "false"
			return
		}
		m := e.mergeStates(fr.prefix+"defer", sts, conds)
		*st = *m
	}
}

// sameBasicCell: both types are (named) basic types with the same underlying basic type: their cells share one heap.
func sameBasicCell(a, b types.Type) bool {
	x, ok1 := a.Underlying().(*types.Basic)
	y, ok2 := b.Underlying().(*types.Basic)
	return ok1 && ok2 && x.Kind() == y.Kind()
}

// entryRefFact: a reference stored in a map of the ENTRY heap is a reference that existed at entry.
func (e *Enc) entryRefFact(key, sort string, lf Leaf, m, k string) {
	if lf.Sort != "Int" || !isRefLike(lf.T) {
		return
	}
	a0 := e.declConst(sym(key+"@0"), sort)
	e.assert("(=> (<= " + m + " alloc@0) (<= (select (select " + a0 + " " + m + ") " + k + ") alloc@0))")
}

// zeroArray: the all-zero backing array of element sort s. For uninterpreted sorts the zero element is a declared
// constant, which is not a value, and cvc5 rejects it as the argument of a constant array; such an array is introduced
// as a declared constant with an element-wise definition instead.
func (e *Enc) zeroArray(s string) string {
	z := e.zero(s)
	if !strings.HasPrefix(z, "zero!") {
		return "((as const (Array Int " + s + ")) " + z + ")"
	}
	n := sym("zeroarr!" + sortSym(s))
	if _, ok := e.declared[n]; !ok {
		e.declConst(n, "(Array Int "+s+")")
		e.assert("(forall ((j Int)) (! (= (select " + n + " j) " + z + ") :pattern ((select " + n + " j))))")
	}
	return n
}
