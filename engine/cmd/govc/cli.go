package main

import (
	"encoding/json"
	"flag"
	"fmt"
	"os"
	"path/filepath"
	"regexp"
	"sort"
	"strconv"
	"strings"
	"sync"
	"time"

	"golang.org/x/tools/go/ssa"
)

type PropConfig struct {
	Patterns    []string `json:"patterns"`
	NotDecided  string   `json:"not_decided"`
	Assumptions []string `json:"assumptions"`
	MinFuncs    int      `json:"min_functions"`
	// Expect: obligations that must exist (vacuity guard at property level): "<func key>#<obligation name>"
	Expect []string `json:"expect"`
}

type KnownFinding struct {
	ID         string `json:"id"`
	Property   string `json:"property"`
	Function   string `json:"function"`
	Obligation string `json:"obligation"` // regexp on obligation name
	Excuse     string `json:"excuse"`     // predicate over the function's parameters / entry state
	What       string `json:"what"`
	Witness    string `json:"witness,omitempty"`
	Status     string `json:"status,omitempty"` // "open" (default) or "fixed: ..."
}

type KnownFile struct {
	Findings []KnownFinding `json:"findings"`
	Fixed    []string       `json:"fixed"`
}

func verifRoot() string {
	if r := os.Getenv("VERIF_ROOT"); r != "" {
		return r
	}
	return "/verif"
}

func runCLI(args []string) int {
	switch args[0] {
	case "check":
		return cmdCheck(args[1:])
	case "list":
		return cmdList(args[1:])
	case "replay":
		return cmdReplay(args[1:])
	}
	fmt.Fprintln(os.Stderr, "unknown command", args[0])
	return 2
}

func loadPropConfigs() (map[string]*PropConfig, error) {
	data, err := os.ReadFile(filepath.Join(verifRoot(), "props.json"))
	if err != nil {
		return nil, err
	}
	m := map[string]*PropConfig{}
	if err := json.Unmarshal(data, &m); err != nil {
		return nil, err
	}
	// props.d/*.json: additional per-property configuration (one file per work area, merged by property id)
	extra, _ := filepath.Glob(filepath.Join(verifRoot(), "props.d", "*.json"))
	sort.Strings(extra)
	for _, f := range extra {
		d, err := os.ReadFile(f)
		if err != nil {
			return nil, err
		}
		mm := map[string]*PropConfig{}
		if err := json.Unmarshal(d, &mm); err != nil {
			return nil, fmt.Errorf("%s: %v", f, err)
		}
		for k, v := range mm {
			if cur, ok := m[k]; ok {
				for _, p := range v.Patterns {
					cur.Patterns = appendUniq(cur.Patterns, p)
				}
				cur.Expect = append(cur.Expect, v.Expect...)
				cur.Assumptions = append(cur.Assumptions, v.Assumptions...)
				if v.NotDecided != "" {
					cur.NotDecided = strings.TrimSpace(cur.NotDecided + " " + v.NotDecided)
				}
				if v.MinFuncs > cur.MinFuncs {
					cur.MinFuncs = v.MinFuncs
				}
			} else {
				m[k] = v
			}
		}
	}
	return m, nil
}

func cmdList(args []string) int {
	fs := flag.NewFlagSet("list", flag.ExitOnError)
	repo := fs.String("repo", "/repo", "")
	prop := fs.String("property", "", "")
	fs.Parse(args)
	cfgs, err := loadPropConfigs()
	if err != nil {
		fmt.Fprintln(os.Stderr, err)
		return 2
	}
	cfg := cfgs[*prop]
	if cfg == nil {
		fmt.Fprintln(os.Stderr, "no config for", *prop)
		return 2
	}
	P, err := loadProgram(*repo, cfg.Patterns, nil)
	if err != nil {
		fmt.Fprintln(os.Stderr, err)
		return 2
	}
	db := loadSpecs(P, []string{filepath.Join(verifRoot(), "prelude"), filepath.Join(verifRoot(), "depspecs")})
	for _, er := range db.Errors {
		fmt.Println("spec error:", er)
	}
	for _, k := range sortedKeys(db.Contracts) {
		c := db.Contracts[k]
		fmt.Printf("%s assumed=%v pure=%v props=%v\n", k, c.Assumed, c.Pure, c.Props)
	}
	return 0
}

var nonWord = regexp.MustCompile(`[^A-Za-z0-9_.\-]+`)

func cmdCheck(args []string) int {
	fs := flag.NewFlagSet("check", flag.ExitOnError)
	repo := fs.String("repo", "/repo", "")
	prop := fs.String("property", "", "")
	tier := fs.String("tier", "quick", "")
	only := fs.String("func", "", "restrict to functions whose key contains this")
	keep := fs.Bool("keep", false, "keep SMT scripts")
	var overlays multiFlag
	fs.Var(&overlays, "overlay", "path=replacement (repeatable): verify with this file content instead of the file on disk")
	verbose := fs.Bool("v", false, "")
	evidenceOut := fs.String("evidence", "", "evidence file (default /verif/evidence/<prop>.json)")
	replaysOut := fs.String("replays", "", "directory for replay records (default /verif/replays/<prop>)")
	fs.Parse(args)
	if t := os.Getenv("VERIF_TIER"); t != "" {
		*tier = t
	}
	seed := 0
	if s := os.Getenv("VERIF_SEED"); s != "" {
		seed, _ = strconv.Atoi(s)
	}
	t0 := time.Now()
	cfgs, err := loadPropConfigs()
	if err != nil {
		fmt.Fprintln(os.Stderr, "infrastructure error:", err)
		return 2
	}
	cfg := cfgs[*prop]
	if cfg == nil {
		fmt.Fprintln(os.Stderr, "infrastructure error: no configuration for property", *prop)
		return 2
	}
	currentProperty = *prop
	var ov map[string][]byte
	for _, o := range overlays {
		i := strings.Index(o, "=")
		if i < 0 {
			fmt.Fprintln(os.Stderr, "bad --overlay", o)
			return 2
		}
		data, err := os.ReadFile(o[i+1:])
		if err != nil {
			fmt.Fprintln(os.Stderr, err)
			return 2
		}
		if ov == nil {
			ov = map[string][]byte{}
		}
		ov[o[:i]] = data
	}
	P, err := loadProgram(*repo, cfg.Patterns, ov)
	if err != nil {
		fmt.Fprintln(os.Stderr, "infrastructure error: cannot load /repo:", err)
		return 2
	}
	loadSecs := time.Since(t0).Seconds()
	db := loadSpecs(P, []string{filepath.Join(verifRoot(), "prelude"), filepath.Join(verifRoot(), "depspecs")})
	ti := newTypeInfo()
	declareOpaque(P, db, ti)
	var known KnownFile
	if data, err := os.ReadFile(filepath.Join(verifRoot(), "known_findings.json")); err == nil {
		if err := json.Unmarshal(data, &known); err != nil {
			fmt.Fprintln(os.Stderr, "infrastructure error: known_findings.json:", err)
			return 2
		}
	}
	timeout := 30 * time.Second
	if *tier == "thorough" {
		timeout = 120 * time.Second
	}
	if v := os.Getenv("VERIF_TIMEOUT"); v != "" {
		// development aid on a loaded machine; the registered commands do not set it
		if n, err := strconv.Atoi(v); err == nil && n > 0 {
			timeout = time.Duration(n) * time.Second
		}
	}
	scratch, err := os.MkdirTemp("", ".vc-"+*prop+"-")
	if err != nil {
		fmt.Fprintln(os.Stderr, "infrastructure error:", err)
		return 2
	}
	if !*keep {
		defer os.RemoveAll(scratch)
	} else {
		fmt.Fprintln(os.Stderr, "scripts in", scratch)
	}

	rep := &Report{Prop: *prop, Tier: *tier, Seed: seed}
	// spec errors are undischarged obligations (never silently skipped)
	for _, er := range db.Errors {
		rep.problems = append(rep.problems, "contract error: "+er)
	}
	// functions under contract for this property
	fnByKey := map[string]*ssa.Function{}
	for _, f := range P.allFunctions() {
		fnByKey[fnKey(f)] = f
	}
	var targets []*Contract
	for _, k := range sortedKeys(db.Contracts) {
		c := db.Contracts[k]
		if !c.Props[*prop] || c.Assumed {
			continue
		}
		if *only != "" && !strings.Contains(k, *only) {
			continue
		}
		targets = append(targets, c)
	}
	type job struct {
		fr        *FuncResult
		o         *Obligation
		kf        *KnownFinding
		canary    bool
		getValues []string
	}
	var jobs []*job
	var frs []*FuncResult
	adapters := loadAdapters()
	for _, c := range targets {
		fn := fnByKey[c.Key]
		if fn == nil {
			rep.problems = append(rep.problems, fmt.Sprintf("function under contract not found or has no body: %s (%s:%d)", c.Key, c.File, c.Line))
			continue
		}
		entryExprs := map[string]string{}
		for i := range known.Findings {
			kf := &known.Findings[i]
			if kf.Property == *prop && kf.Function == c.Key && kf.Excuse != "" {
				entryExprs["excuse:"+kf.ID] = kf.Excuse
			}
		}
		for ai := range adapters {
			a := &adapters[ai]
			if ok, _ := regexp.MatchString("^(?:"+a.Function+")$", c.Key); ok {
				for n, src := range a.Observe {
					entryExprs[fmt.Sprintf("observe:%d:%s", ai, n)] = src
				}
			}
		}
		fr := verifyFunction(P, db, ti, fn, c, entryExprs)
		frs = append(frs, fr)
		rep.funcs = append(rep.funcs, c.Key)
		for _, u := range fr.Unsupported {
			rep.problems = append(rep.problems, fmt.Sprintf("%s: out of reach: %s", c.Key, u))
		}
		// A function that belongs to this property ONLY through its `deterministic[Cxx]` clause and carries functional
		// clauses of other properties is checked here for determinism only: no reachable call of a node-local source, every callee
		// deterministic, and the FRAME obligations (it writes nothing but what its modifies clause names: no hidden
		// node-local memory such as a process-wide cache). Its loop, call-site and functional obligations are discharged by
		// the checks of the properties its other labels name (reported in the evidence as determinism-only).
		detOnly := !c.StrongProps[*prop] && len(c.StrongProps) > 0
		if detOnly {
			rep.detOnly = append(rep.detOnly, c.Key+" (other obligations under "+strings.Join(sortedKeys(c.StrongProps), ",")+")")
		}
		for _, o := range fr.Obls {
			if !labelRelevant(o.Label, *prop) {
				continue
			}
			if detOnly && o.Kind != "deterministic" && o.Kind != "frame" && !o.Cover {
				continue
			}
			j := &job{fr: fr, o: o}
			// known findings
			for i := range known.Findings {
				kf := &known.Findings[i]
				if kf.Property != *prop || kf.Function != c.Key || kf.Excuse == "" {
					continue
				}
				if ok, _ := regexp.MatchString("^(?:"+kf.Obligation+")$", o.Name); ok {
					j.kf = kf
				}
			}
			jobs = append(jobs, j)
		}
	}
	// excuses and replay observables were evaluated in the entry state by verifyFunction
	excuseTerm := map[*job]string{}
	for _, j := range jobs {
		if j.kf != nil {
			if er, bad := j.fr.EntryErrs["excuse:"+j.kf.ID]; bad {
				rep.problems = append(rep.problems, "known finding "+j.kf.ID+": "+er)
				j.kf = nil
			} else if t, ok := j.fr.EntryTerms["excuse:"+j.kf.ID]; ok && t.S == "Bool" {
				excuseTerm[j] = t.T
			} else {
				rep.problems = append(rep.problems, "known finding "+j.kf.ID+": excuse is not a boolean expression")
				j.kf = nil
			}
		}
		if j.o.Cover {
			continue
		}
		for ai := range adapters {
			a := &adapters[ai]
			if findAdapter(adapters[ai:ai+1], j.o.Func, j.o.Name) == nil {
				continue
			}
			rj := &replayJob{adapter: a}
			for _, n := range sortedKeys(a.Observe) {
				k := fmt.Sprintf("observe:%d:%s", ai, n)
				if t, ok := j.fr.EntryTerms[k]; ok {
					rj.names = append(rj.names, n)
					j.getValues = append(j.getValues, t.T)
				} else if er, bad := j.fr.EntryErrs[k]; bad {
					rep.notes = appendUniq(rep.notes, "replay adapter "+a.Template+" observable "+n+": "+er)
				}
			}
			replays[j.o] = rj
			break
		}
	}
	// canaries: the excused region must still be reachable
	var all []*job
	for _, j := range jobs {
		all = append(all, j)
		if j.kf != nil {
			co := *j.o
			co.Name = j.o.Name + "!canary:" + j.kf.ID
			co.Cover = true
			all = append(all, &job{fr: j.fr, o: &co, kf: j.kf, canary: true})
		}
	}
	// solve
	var wg sync.WaitGroup
	sem := make(chan struct{}, 6)
	var mu, retryMu sync.Mutex
	retries := 0
	solverSecs := map[string]float64{}
	// frame obligations of the form "a callee on this path may modify everything" are solved first: when one fails, the
	// per-location frame obligations of the same function and scope fail with it (hundreds of 30 s timeouts on a tree
	// that, e.g., changed the signature of a function with a trusted summary) and are reported as subsumed instead
	isEverything := func(o *Obligation) bool { return o.Kind == "frame" && strings.HasSuffix(o.Name, "frame:everything") }
	frameScope := func(j *job) string {
		return fmt.Sprintf("%p|%s", j.fr, j.o.Name[:strings.LastIndex(j.o.Name, "frame:")+len("frame:")])
	}
	everythingFailed := map[string]bool{}
	for phase := 0; phase < 2; phase++ {
		for idx, j := range all {
			if (phase == 0) != isEverything(j.o) {
				continue
			}
			if phase == 1 && j.o.Kind == "frame" && !j.o.Cover && strings.Contains(j.o.Name, "frame:") && everythingFailed[frameScope(j)] {
				j.o.Result, j.o.Solver = "subsumed", ""
				continue
			}
			wg.Add(1)
			go func(idx int, j *job) {
				defer wg.Done()
				sem <- struct{}{}
				defer func() { <-sem }()
				extra := ""
				if j.kf != nil {
					base := j
					if j.canary {
						// find term from the original job
						for k, t := range excuseTerm {
							if k.o.Name+"!canary:"+j.kf.ID == j.o.Name && k.fr == j.fr {
								extra = t
								_ = base
							}
						}
					} else {
						extra = not(excuseTerm[j])
					}
				}
				script := j.o.script(j.fr.Enc, extra, j.getValues)
				to := timeout
				if j.o.Cover {
					to = 10 * time.Second
				}
				name := fmt.Sprintf("o%04d_%s", idx, nonWord.ReplaceAllString(j.o.Name, "_"))
				if len(name) > 120 {
					name = name[:120]
				}
				r := runPortfolio(script, scratch, name, to, seed, *tier == "thorough" && !j.o.Cover)
			if r.result == "error" || strings.Contains(r.raw, "no such file") {
				// scratch files vanished under the solvers (external clean-up): once more, the directory is re-created
				r = runPortfolio(script, scratch, name+"_again", to, seed, *tier == "thorough" && !j.o.Cover)
			}
				if !j.o.Cover && r.result != "sat" && r.result != "unsat" {
					// second chance: an undecided (timeout / unknown) proof obligation is retried once, alone, with twice the
					// time and another seed — a machine loaded by other processes must not turn a 1-second proof into an alarm
					retryMu.Lock()
					var r2 solveOut
					if retries < 8 { // a tree that really breaks many obligations is not worth hours of retries
						retries++
						r2 = runPortfolio(script, scratch, name+"_retry", 2*to, seed+3, false)
					}
					retryMu.Unlock()
					if r2.result == "sat" || r2.result == "unsat" {
						r2.seconds += to.Seconds()
						for sname, t := range r.perSolver {
							r2.perSolver[sname+"/first-try"] = t
						}
						r = r2
					}
				}
				j.o.Result, j.o.Solver, j.o.Seconds, j.o.Model, j.o.Raw, j.o.Bytes = r.result, r.solver, r.seconds, r.model, r.raw, len(script)
				mu.Lock()
				if rj := replays[j.o]; rj != nil && r.result == "sat" && len(j.getValues) > 0 {
					rj.values = parseGetValue(r.model, len(j.getValues))
				}
				for s, t := range r.perSolver {
					solverSecs[s] += t
				}
				if *tier == "thorough" && !j.o.Cover {
					n := 0
					for _, res := range r.both {
						if res == r.result {
							n++
						}
					}
					if n < 2 {
						rep.singleSolver = append(rep.singleSolver, j.o.Func+"#"+j.o.Name)
					}
				}
				mu.Unlock()
				if *verbose {
					fmt.Fprintf(os.Stderr, "%-8s %-7s %6.2fs %s#%s\n", j.o.Result, j.o.Solver, j.o.Seconds, shortKey(j.o.Func), j.o.Name)
					if j.o.Result != "sat" && j.o.Result != "unsat" && os.Getenv("VERIF_DEBUG") != "" {
						fmt.Fprintf(os.Stderr, "    per-solver: %v %v\n    %s\n", r.both, r.perSolver, truncStr(strings.ReplaceAll(j.o.Raw, "\n", " | "), 600))
					}
				}
			}(idx, j)
		}
		wg.Wait()
		if phase == 0 {
			for _, j := range all {
				if isEverything(j.o) && j.o.Result != "unsat" {
					everythingFailed[frameScope(j)] = true
				}
			}
		}
	}
	rep.solverSecs = solverSecs
	rep.loadSecs = loadSecs

	// verdicts
	for _, j := range all {
		o := j.o
		full := o.Func + "#" + o.Name
		switch {
		case j.canary:
			if o.Result == "sat" {
				rep.knownConfirmed = appendUniq(rep.knownConfirmed, j.kf.ID)
				rep.knownLines = appendUniq(rep.knownLines, fmt.Sprintf("KNOWN-FINDING: property=%s %s [%s] %s", *prop, j.kf.ID, shortKey(o.Func)+"#"+strings.SplitN(o.Name, "!canary", 2)[0], j.kf.What))
			} else if o.Result == "unsat" {
				rep.notes = append(rep.notes, fmt.Sprintf("known finding %s no longer reachable at %s (defect gone?)", j.kf.ID, full))
			} else {
				rep.notes = append(rep.notes, fmt.Sprintf("known finding %s canary undecided (%s) at %s", j.kf.ID, o.Result, full))
				// still print: the excused region was not shown unreachable
				rep.knownLines = appendUniq(rep.knownLines, fmt.Sprintf("KNOWN-FINDING: property=%s %s [%s] %s", *prop, j.kf.ID, shortKey(o.Func)+"#"+strings.SplitN(o.Name, "!canary", 2)[0], j.kf.What))
			}
		case o.Cover:
			rep.covers++
			if o.Result == "unsat" {
				rep.violations = append(rep.violations, &Violation{Obl: o, Reason: "vacuity: " + o.Clause + " is UNSATISFIABLE (contradictory precondition or unreachable return)"})
			}
		default:
			rep.obligations++
			if o.Result == "subsumed" {
				rep.notes = appendUniq(rep.notes, "frame obligations of "+shortKey(o.Func)+" not solved individually: subsumed by the failed `frame:everything` obligation of the same scope")
				continue
			}
			if o.Result == "unsat" {
				rep.discharged++
				if j.kf != nil {
					o.Excused = j.kf.ID
				}
			} else {
				rep.violations = append(rep.violations, &Violation{Obl: o, Enc: j.fr.Enc})
			}
			rep.samplesAdd(o)
		}
	}
	// expected obligations must exist
	have := map[string]bool{}
	for _, j := range jobs {
		have[j.o.Func+"#"+j.o.Name] = true
	}
	for _, ex := range cfg.Expect {
		if !have[ex] && *only == "" {
			rep.problems = append(rep.problems, "expected obligation was not generated: "+ex)
		}
	}
	if len(targets) < cfg.MinFuncs && *only == "" {
		rep.problems = append(rep.problems, fmt.Sprintf("only %d functions under contract for %s, expected at least %d", len(targets), *prop, cfg.MinFuncs))
	}
	if rep.obligations == 0 {
		rep.problems = append(rep.problems, "no obligations were generated")
	}
	rep.collect(frs, db)
	rep.cfg = cfg
	rep.wall = time.Since(t0).Seconds()
	ev := *evidenceOut
	if ev == "" {
		ev = filepath.Join(verifRoot(), "evidence", *prop+".json")
	}
	rep.replayDir = *replaysOut
	return rep.finish(ev)
}

func shortKey(k string) string {
	k = strings.ReplaceAll(k, "github.com/EscanBE/evermint/v12/", "")
	k = strings.ReplaceAll(k, "github.com/ethereum/go-ethereum/", "geth/")
	return k
}

func appendUniq(xs []string, x string) []string {
	for _, y := range xs {
		if y == x {
			return xs
		}
	}
	return append(xs, x)
}

// labelRelevant: unlabeled obligations always count; labelled ones count when they mention the property
// (or mention no property at all).
func labelRelevant(label, prop string) bool {
	if label == "" {
		return true
	}
	anyProp := false
	for _, l := range strings.Split(label, ",") {
		l = strings.TrimSpace(l)
		if len(l) >= 3 && l[0] == 'C' && unicodeDigit(l[1]) {
			anyProp = true
			id := l
			if i := strings.Index(l, "."); i > 0 {
				id = l[:i]
			}
			if id == prop {
				return true
			}
		}
	}
	return !anyProp
}

func declareOpaque(P *Program, db *SpecDB, ti *TypeInfo) {
	e := &Enc{P: P, DB: db, TI: ti}
	for _, od := range db.Opaque {
		te := od.T
		imm := false
		hnd := false
		if te.Kind == "immutable" {
			imm = true
			te = te.V
		} else if te.Kind == "handle" {
			hnd = true
			te = te.V
		}
		gt, err := e.resolveGoType(te, od.PkgPath, od.Imports)
		if err != nil {
			if od.PkgPath != "" && !P.Complete[od.PkgPath] {
				// the declaring package is only a stub of this load (reached indirectly): the type is simply not in play
				db.Skipped = append(db.Skipped, fmt.Sprintf("opaque/immutable %s (package %s only partially loaded)", te.String(), od.PkgPath))
				continue
			}
			db.Errors = append(db.Errors, "opaque/immutable "+te.String()+": "+err.Error())
			continue
		}
		if imm {
			db.Immutable[typeStr(gt)] = true
			continue
		}
		if hnd {
			db.Handles[typeStr(gt)] = true
			continue
		}
		if od.SameAs != nil {
			st, err := e.resolveGoType(od.SameAs, od.PkgPath, od.Imports)
			if err != nil {
				db.Errors = append(db.Errors, "opaque "+te.String()+": "+err.Error())
				continue
			}
			if s, ok := ti.opaque[typeStr(st)]; ok {
				ti.opaque[typeStr(gt)] = s
			} else {
				db.Errors = append(db.Errors, "opaque "+te.String()+" = "+od.SameAs.String()+": the latter must be declared opaque first")
			}
			continue
		}
		name := typeStr(gt)
		if i := strings.LastIndex(name, "/"); i >= 0 {
			name = name[i+1:]
		}
		ti.opaque[typeStr(gt)] = "O!" + strings.NewReplacer(".", "!", "*", "p", "[", "_", "]", "_").Replace(name)
	}
	for _, zd := range db.zeroDecls {
		gt, err := e.resolveGoType(zd.T, zd.ZI.PkgPath, zd.ZI.Imports)
		if err != nil {
			db.Errors = append(db.Errors, "zeroinit "+zd.T.String()+": "+err.Error())
			continue
		}
		db.ZeroInit[typeStr(gt)] = zd.ZI
	}
	_ = sort.Strings
}

// cmdReplay re-runs a recorded counterexample (replays/<prop>/<obligation>.json + .input.json) on the real code.
func cmdReplay(args []string) int {
	if len(args) != 1 {
		fmt.Fprintln(os.Stderr, "usage: govc replay <replay.json>")
		return 2
	}
	inPath := strings.TrimSuffix(args[0], ".json") + ".input.json"
	data, err := os.ReadFile(inPath)
	if err != nil {
		fmt.Println("this replay record carries no executable input (no-failing-input-found); the record itself names the failed obligation and the solver output:")
		rec, _ := os.ReadFile(args[0])
		fmt.Println(truncStr(string(rec), 6000))
		return 1
	}
	var in struct {
		Property, Function, Obligation, Kind string
		Values                               map[string]string
	}
	if err := json.Unmarshal(data, &in); err != nil {
		fmt.Fprintln(os.Stderr, err)
		return 2
	}
	a := findAdapter(loadAdapters(), in.Function, in.Obligation)
	if a == nil {
		fmt.Fprintln(os.Stderr, "no replay adapter for", in.Function, in.Obligation)
		return 2
	}
	ok, out := runReplay(a, in.Property, in.Function, in.Obligation, in.Kind, in.Values, "")
	fmt.Println(out)
	if ok {
		fmt.Println("violation reproduced on the real code")
		return 1
	}
	fmt.Println("violation NOT reproduced on the current tree")
	return 0
}

type multiFlag []string

func (m *multiFlag) String() string     { return strings.Join(*m, ",") }
func (m *multiFlag) Set(v string) error { *m = append(*m, v); return nil }
