package main

import (
	"regexp"
	"strings"
)

// STRICT relevance slicing of an obligation script, in addition to the transitive slicing of solve.go (sliceScript): for
// functions with a large quantified representation invariant the transitive closure keeps almost everything.
// (An optimisation of the solving layer, always sound: hypotheses are only
// DROPPED, so an `unsat` of the sliced script is an `unsat` of the full one; any other answer of a sliced script is
// ignored). Scripts of functions with large quantified invariants carry hundreds of quantified hypotheses (typing
// closures, one append / copy axiom per struct leaf, every conjunct of the invariant); most of them are about heap
// components the goal does not mention, and they drown the instantiation engines.
//
// A quantified hypothesis is kept iff it mentions a heap component / ghost function of the goal that is not
// ubiquitous (one that occurs in more than a quarter of the quantified hypotheses, or in more than 16 of them, like the
// length of the slice an invariant ranges over, does not discriminate).

var symRe = regexp.MustCompile(`\|[^|]*\|`)
var verRe = regexp.MustCompile(`(!app|!cpy)?@\d+$`)

func symBase(s string) string {
	s = strings.Trim(s, "|")
	return verRe.ReplaceAllString(s, "")
}

// topConjuncts splits "(assert (and A B ...))" into its conjuncts (recursively); other shapes are returned as is.
func topConjuncts(term string) []string {
	term = strings.TrimSpace(term)
	if strings.HasPrefix(term, "(=> ") {
		// (=> A (and B C ..)) is split into (=> A B), (=> A C), .. so that the ground parts of a guarded conjunction
		// (callee postconditions under a path condition) survive when its quantified parts are dropped
		args := sexpArgs(term[len("(=> ") : len(term)-1])
		if len(args) == 2 && strings.HasPrefix(args[1], "(and ") {
			var out []string
			for _, c := range topConjuncts(args[1]) {
				out = append(out, "(=> "+args[0]+" "+c+")")
			}
			return out
		}
		return []string{term}
	}
	if !strings.HasPrefix(term, "(and ") {
		return []string{term}
	}
	inner := term[len("(and ") : len(term)-1]
	var out []string
	for _, a := range sexpArgs(inner) {
		out = append(out, topConjuncts(a)...)
	}
	return out
}

// sexpArgs splits a sequence of s-expressions / atoms (|quoted| symbols respected) at top level.
func sexpArgs(inner string) []string {
	var out []string
	depth, start := 0, -1
	inBar := false
	for i := 0; i < len(inner); i++ {
		c := inner[i]
		if c == '|' {
			inBar = !inBar
			if inBar && depth == 0 && start < 0 {
				start = i
			}
			if !inBar && depth == 0 && start >= 0 {
				out = append(out, inner[start:i+1])
				start = -1
			}
			continue
		}
		if inBar {
			continue
		}
		switch c {
		case '(':
			if depth == 0 && start < 0 {
				start = i
			}
			depth++
		case ')':
			depth--
			if depth == 0 && start >= 0 {
				out = append(out, inner[start:i+1])
				start = -1
			}
		case ' ', '\n', '\t':
			if depth == 0 && start >= 0 {
				out = append(out, inner[start:i])
				start = -1
			}
		default:
			if depth == 0 && start < 0 {
				start = i
			}
		}
	}
	if start >= 0 {
		out = append(out, inner[start:])
	}
	return out
}

// sliceScriptStrict returns the strictly sliced script and true when slicing applies (enough quantified hypotheses, a non-empty
// discriminating symbol set, and at least one hypothesis dropped).
func sliceScriptStrict(script string) (string, bool) {
	lines := strings.Split(script, "\n")
	marker := -1
	for i, l := range lines {
		if strings.HasPrefix(l, "; obligation ") {
			marker = i
		}
	}
	if marker < 0 {
		return "", false
	}
	// heap-like symbols: declared with an array sort or as functions
	heapSym := map[string]bool{}
	for _, l := range lines[:marker] {
		if strings.HasPrefix(l, "(declare-const ") {
			rest := l[len("(declare-const "):]
			if m := symRe.FindString(rest); m != "" && strings.HasPrefix(rest, m) {
				if strings.HasPrefix(strings.TrimSpace(rest[len(m):]), "(Array") {
					heapSym[symBase(m)] = true
				}
			}
		} else if strings.HasPrefix(l, "(declare-fun ") || strings.HasPrefix(l, "(define-fun") {
			if m := symRe.FindString(l); m != "" {
				heapSym[symBase(m)] = true
			}
		}
	}
	basesOf := func(s string) map[string]bool {
		out := map[string]bool{}
		for _, m := range symRe.FindAllString(s, -1) {
			if b := symBase(m); heapSym[b] {
				out[b] = true
			}
		}
		return out
	}
	type hyp struct {
		line  int
		text  string
		bases map[string]bool
	}
	var quant []hyp
	newLines := make([][]string, marker)
	for i, l := range lines[:marker] {
		if !strings.HasPrefix(l, "(assert ") || !strings.Contains(l, "forall") {
			newLines[i] = []string{l}
			continue
		}
		body := l[len("(assert ") : len(l)-1]
		for _, c := range topConjuncts(body) {
			if strings.Contains(c, "forall") {
				quant = append(quant, hyp{i, c, basesOf(c)})
			} else {
				newLines[i] = append(newLines[i], "(assert "+c+")")
			}
		}
	}
	if len(quant) < 24 {
		return "", false
	}
	freq := map[string]int{}
	for _, h := range quant {
		for b := range h.bases {
			freq[b]++
		}
	}
	limit := len(quant) / 4
	if limit < 8 {
		limit = 8
	}
	if limit > 16 {
		limit = 16
	}
	goal := basesOf(strings.Join(lines[marker:], "\n"))
	rel := map[string]bool{}
	for b := range goal {
		if freq[b] <= limit {
			rel[b] = true
		}
	}
	if len(rel) == 0 {
		return "", false
	}
	dropped := 0
	for _, h := range quant {
		// an axiom with an explicit trigger that is about ubiquitous symbols only (e.g. the definition of the
		// element-index function) is kept
		keep := strings.Contains(h.text, ":pattern")
		for b := range h.bases {
			if freq[b] <= limit {
				keep = false
			}
		}
		for b := range h.bases {
			if rel[b] {
				keep = true
				break
			}
		}
		if keep {
			newLines[h.line] = append(newLines[h.line], "(assert "+h.text+")")
		} else {
			dropped++
		}
	}
	if dropped == 0 {
		return "", false
	}
	var b strings.Builder
	for _, ls := range newLines {
		for _, l := range ls {
			b.WriteString(l)
			b.WriteByte('\n')
		}
	}
	b.WriteString(strings.Join(lines[marker:], "\n"))
	return b.String(), true
}
