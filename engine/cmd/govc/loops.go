package main

import (
	"fmt"
	"strings"

	"golang.org/x/tools/go/ssa"
)

func (e *Enc) loopSpecFor(fr *Frame, li *loopInfo) *LoopSpec {
	return e.loopSpecOrd(fr, li.ordinal)
}

// loopSpecOrd: the specification of the loop with this ordinal of fr.fn — from the function's own contract, or, for an
// inlined frame, from a "loop N of F" block of the function under verification (the top frame of the inline chain).
func (e *Enc) loopSpecOrd(fr *Frame, ordinal int) *LoopSpec {
	if c := e.contractOfFn(fr.fn); c != nil {
		if sp := c.Loops[ordinal]; sp != nil {
			return sp
		}
	}
	if fr.parent == nil {
		return nil
	}
	top := fr
	for top.parent != nil {
		top = top.parent
	}
	if top.contract == nil || len(top.contract.InlinedLoops) == 0 {
		return nil
	}
	short := shortFn(fr.fn)
	for name, m := range top.contract.InlinedLoops {
		if short == name || strings.HasSuffix(short, "."+name) {
			if sp := m[ordinal]; sp != nil {
				if e.dry == 0 {
					top.contract.callAssertSeen("loop:" + name + "#" + fmt.Sprint(ordinal))
				}
				return sp
			}
		}
	}
	return nil
}

// loopEnv: the environment in which the clauses of a loop specification are evaluated. For a "loop N of F" block the
// clauses belong to the function under verification: its contract parameters, its imports, its entry state for old(),
// and — after the locals of the inlined frame — the locals of the enclosing frames up to the top one.
func (e *Enc) loopEnv(fr *Frame, st *State, li *loopInfo, spec *LoopSpec) *Env {
	env := e.envFor(fr, st)
	env.loop = li
	if spec == nil || spec.Owner == nil || fr.parent == nil {
		return env
	}
	top := fr
	for top.parent != nil {
		top = top.parent
	}
	env.vars = map[string]*Val{}
	for k, v := range e.bindParams(spec.Owner, top.args, top.fn.Signature) {
		env.vars[k] = v
	}
	env.pkgPath, env.imports = spec.Owner.PkgPath, spec.Owner.Imports
	if top.entry != nil {
		env.old = top.entry
	}
	env.outer = true
	return env
}

func (e *Enc) contractOfFn(fn *ssa.Function) *Contract {
	if fn == nil {
		return nil
	}
	if o := fn.Object(); o != nil {
		if tf, ok := o.(interface{ FullName() string }); ok {
			if c, ok := e.DB.Contracts[tf.FullName()]; ok {
				return c
			}
		}
	}
	// anonymous function: contract written as `func Parent__N(...)`, keyed by the SSA name Parent$N
	if c, ok := e.DB.Contracts[fnKey(fn)]; ok {
		return c
	}
	return nil
}

type dryFrame struct {
	declared map[string]string
	outLen   int
	nfresh   int
	strLits  map[string]string
	vals     map[ssa.Value]bool
	writeLog map[string]bool
	blockOut map[int]*State
	nUnsupp  int
	siteN    map[string]int
	exitsLen int
	cacheLen int
	nonLocal map[string]bool
}

func (e *Enc) beginDry(fr *Frame) *dryFrame {
	d := &dryFrame{declared: make(map[string]string, len(e.declared)), outLen: len(e.out), nfresh: e.nfresh,
		strLits: make(map[string]string, len(e.strLits)), vals: map[ssa.Value]bool{}, writeLog: e.writeLog,
		blockOut: map[int]*State{}, exitsLen: len(fr.exits), cacheLen: len(e.dryCache)}
	for k, v := range e.declared {
		d.declared[k] = v
	}
	for k, v := range e.strLits {
		d.strLits[k] = v
	}
	for k := range fr.vals {
		d.vals[k] = true
	}
	for k, v := range fr.blockOut {
		d.blockOut[k] = v
	}
	e.writeLog = map[string]bool{}
	d.nonLocal = e.writeNonLocal
	e.writeNonLocal = map[string]bool{}
	e.dry++
	return d
}

func (e *Enc) endDry(fr *Frame, d *dryFrame) map[string]bool {
	e.dry--
	written := e.writeLog
	e.writeLog = d.writeLog
	for k := range written {
		e.writeLog[k] = true
	}
	e.dryNonLocal = e.writeNonLocal
	e.writeNonLocal = d.nonLocal
	for k := range e.dryNonLocal {
		if e.writeNonLocal == nil {
			e.writeNonLocal = map[string]bool{}
		}
		e.writeNonLocal[k] = true
	}
	for _, c := range e.dryCache[d.cacheLen:] {
		delete(c.st.heap, c.key)
	}
	e.dryCache = e.dryCache[:d.cacheLen]
	e.declared = d.declared
	e.out = e.out[:d.outLen]
	e.strLits = d.strLits
	// nfresh is NOT reset: names stay unique
	for k := range fr.vals {
		if !d.vals[k] {
			delete(fr.vals, k)
		}
	}
	fr.blockOut = d.blockOut
	fr.exits = fr.exits[:d.exitsLen]
	return written
}

// enterLoop: st is the state on loop entry (phis bound to entry values). Returns the state at the header of an
// arbitrary iteration.
func (e *Enc) enterLoop(fr *Frame, li *loopInfo, st *State) *State {
	spec := e.loopSpecFor(fr, li)
	var invs []*Clause
	if spec != nil {
		invs = spec.Invariants
	}
	loopName := fmt.Sprintf("loop%d", li.ordinal)
	if fr.parent != nil {
		loopName = shortFn(fr.fn) + "/" + loopName
	}
	// 1. establish
	for i, inv := range invs {
		env := e.loopEnv(fr, st, li, spec)
		g, err := env.evalBool(inv.E)
		if err != nil {
			e.unsupportedf("%s invariant %d: %v", loopName, i+1, err)
			continue
		}
		e.addObl(&Obligation{Name: fmt.Sprintf("%s.establish:%s", loopName, clauseName(inv, i)), Kind: "invariant-establish", Label: inv.Label,
			Clause: inv.Src, Reach: st.reach, Goal: g, Pos: e.posStr(li.pos)})
	}
	// 2. dry run of the body to learn what it writes
	d := e.beginDry(fr)
	{
		hst := st.clone()
		var body []*ssa.BasicBlock
		for _, b := range fr.order {
			if li.body[b.Index] {
				body = append(body, b)
			}
		}
		// header first
		ordered := []*ssa.BasicBlock{li.header}
		for _, b := range body {
			if b != li.header {
				ordered = append(ordered, b)
			}
		}
		e.encodeBlocks(fr, ordered, hst, li.body)
	}
	written := e.endDry(fr, d)
	// 3. havoc
	h := st.clone()
	loopFrame := spec != nil && spec.HasModifies
	nonLocal := e.dryNonLocal
	for _, k := range sortedKeys(written) {
		if loopFrame && !strings.HasPrefix(k, "RV|") {
			continue // declared loop frame: only the declared targets are havocked (below)
		}
		if _, ok := e.heapSort[k]; ok {
			before := e.heapGet(st, k, e.heapSort[k])
			h.heap[k] = e.fresh(k, e.heapSort[k])
			e.writeLog[k] = true
			// every write of the body to this component goes through an object allocated by this function: objects
			// that existed when the function started are untouched by any number of iterations
			if (!nonLocal[k] || (spec != nil && spec.FreshWrites)) && !written["*"] && refIndexedKey(k) {
				e.assert("(forall ((r Int)) (! (=> (<= r alloc@0) (= (select " + h.heap[k] + " r) (select " + before + " r))) :pattern ((select " + h.heap[k] + " r))))")
			} else if nonLocal[k] {
				e.noteNonLocal(k)
			}
		}
	}
	if written["*"] {
		// the body havocs everything (unknown callee): so does an arbitrary number of iterations
		e.havocUnknown(h)
	}
	e.bumpAlloc(h)
	li.written = written
	for _, in := range li.header.Instrs {
		phi, ok := in.(*ssa.Phi)
		if !ok {
			break
		}
		old := fr.vals[phi]
		if old != nil && (old.Clos != nil || old.Loc != nil) {
			continue
		}
		fr.vals[phi] = e.freshVal(h, fr.prefix+phi.Name()+"!"+phi.Comment, phi.Type())
	}
	if loopFrame {
		// targets are evaluated at the header of the arbitrary iteration (loop-carried variables have their header values)
		for i, m := range spec.Modifies {
			env := e.loopEnv(fr, h, li, spec)
			if err := env.havocTarget(h, m); err != nil {
				e.unsupportedf("%s modifies %s: %v", loopName, spec.ModSrc[i], err)
			}
		}
	}
	li.headerState = h.clone()
	// 4. assume invariants
	for i, inv := range invs {
		env := e.loopEnv(fr, h, li, spec)
		g, err := env.evalBool(inv.E)
		if err != nil {
			e.unsupportedf("%s invariant %d: %v", loopName, i+1, err)
			continue
		}
		e.assume(h, g)
	}
	if len(h.defers) != len(st.defers) {
		e.unsupportedf("defer inside loop in %s", fr.fn)
	}
	return h
}

func clauseName(c *Clause, i int) string {
	if c.Label != "" {
		return c.Label
	}
	return fmt.Sprintf("%s%d", c.Kind, i+1)
}

// backEdgeObligations: block b (end state st) jumps back to header s via successor index si.
func (e *Enc) backEdgeObligations(fr *Frame, b *ssa.BasicBlock, st *State, si int) {
	s := b.Succs[si]
	li := fr.loops[s.Index]
	spec := e.loopSpecFor(fr, li)
	if spec == nil || (len(spec.Invariants) == 0 && !spec.HasModifies) {
		return
	}
	cond := e.edgeCond(fr, b, st, si)
	if cond == "false" {
		return
	}
	if spec.HasModifies && li.headerState != nil && e.dry == 0 {
		// loop frame: whatever the body wrote outside the declared targets is unchanged w.r.t. the header state
		// (objects allocated during this iteration are exempt)
		lname := fmt.Sprintf("loop%d", li.ordinal)
		if fr.parent != nil {
			lname = shortFn(fr.fn) + "/" + lname
		}
		fenv := e.loopEnv(fr, li.headerState, li, spec)
		fp, err := fenv.footprintOfTargets(spec.Modifies, nil)
		if err != nil {
			e.unsupportedf("%s modifies: %v", lname, err)
		} else if !fp.all {
			e.frameObligations(li.written, li.headerState, st, fp, lname+".frame:", lname+" modifies "+strings.Join(spec.ModSrc, ", "), cond)
		}
	}
	// bind phis to the back-edge operands
	saved := map[*ssa.Phi]*Val{}
	predIdx := -1
	cnt := 0
	for j, p := range s.Preds {
		if p == b {
			// if b has two edges to s (both branches), pick according to si ordering
			if cnt == 0 || predIdx < 0 {
				predIdx = j
			}
			cnt++
		}
	}
	if cnt > 1 {
		// choose the j-th occurrence matching si among b.Succs==s
		k := 0
		for x := 0; x < si; x++ {
			if b.Succs[x] == s {
				k++
			}
		}
		c := 0
		for j, p := range s.Preds {
			if p == b {
				if c == k {
					predIdx = j
				}
				c++
			}
		}
	}
	var phis []*ssa.Phi
	for _, in := range s.Instrs {
		phi, ok := in.(*ssa.Phi)
		if !ok {
			break
		}
		saved[phi] = fr.vals[phi]
		phis = append(phis, phi)
	}
	newVals := map[*ssa.Phi]*Val{}
	for _, phi := range phis {
		newVals[phi] = e.val(fr, phi.Edges[predIdx])
	}
	for phi, v := range newVals {
		fr.vals[phi] = v
	}
	loopName := fmt.Sprintf("loop%d", li.ordinal)
	if fr.parent != nil {
		loopName = shortFn(fr.fn) + "/" + loopName
	}
	st2 := st.clone()
	st2.reach = cond
	for i, inv := range spec.Invariants {
		env := e.loopEnv(fr, st2, li, spec)
		g, err := env.evalBool(inv.E)
		if err != nil {
			e.unsupportedf("%s invariant %d: %v", loopName, i+1, err)
			continue
		}
		e.addObl(&Obligation{Name: fmt.Sprintf("%s.preserve:%s", loopName, clauseName(inv, i)), Kind: "invariant-preserve", Label: inv.Label,
			Clause: inv.Src, Reach: cond, Goal: g, Pos: e.posStr(li.pos)})
	}
	for phi, v := range saved {
		fr.vals[phi] = v
	}
}

// visitedSet: the ghost set of keys already yielded by the map range that drives loop li of env.fr (nil: the loop of
// the invariant being evaluated). Usable in loop invariants as `visited` / `visited(N)` (N = loop ordinal).
func (env *Env) visitedSet(ordinal int) (*Val, error) {
	fr := env.fr
	if fr == nil {
		return nil, fmt.Errorf("visited is only available in loop invariants")
	}
	li := env.loop
	if ordinal > 0 {
		li = nil
		for _, l := range fr.loops {
			if l.ordinal == ordinal {
				li = l
			}
		}
	}
	if li == nil {
		return nil, fmt.Errorf("visited: no such loop")
	}
	for _, in := range li.header.Instrs {
		nx, ok := in.(*ssa.Next)
		if !ok || nx.IsString {
			continue
		}
		rng, ok := nx.Iter.(*ssa.Range)
		if !ok {
			continue
		}
		ksort, _, _, _, ok := env.e.mapKeys(rng.X.Type())
		if !ok {
			return nil, fmt.Errorf("visited: map with composite key")
		}
		sort := "(Array " + ksort + " Bool)"
		key := fmt.Sprintf("RV|%s%s", fr.prefix, rng.Name())
		return &Val{L: []Sc{{env.e.heapGet(env.st, key, sort), sort}}}, nil
	}
	return nil, fmt.Errorf("visited: loop %d does not range over a map", li.ordinal)
}

// refIndexedKey: heap components indexed by object reference at the first level.
func refIndexedKey(k string) bool {
	for _, p := range []string{"F|", "P|", "S|", "MD|", "MV|"} {
		if len(k) >= len(p) && k[:len(p)] == p {
			return true
		}
	}
	return refKeyedGhost[k]
}

// refKeyedGhost: heap keys "G|name" of ghost variables declared map[ref]... / map[*T]... (their first-level index is an
// object reference, like the Go heap components). Filled once per run from the specification database.
var refKeyedGhost = map[string]bool{}

func (e *Enc) noteNonLocal(k string) {
	if e.writeNonLocal == nil {
		e.writeNonLocal = map[string]bool{}
	}
	e.writeNonLocal[k] = true
}
