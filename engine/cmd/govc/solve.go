package main

import (
	"bytes"
	"context"
	"fmt"
	"os"
	"os/exec"
	"path/filepath"
	"regexp"
	"strings"
	"sync"
	"time"
)

type solverSpec struct {
	name string
	bin  string
	args func(timeout time.Duration, seed int) []string
	pre  string
}

var solvers = []solverSpec{
	{"z3-new", "z3-new", func(t time.Duration, seed int) []string {
		return []string{fmt.Sprintf("-T:%d", int(t.Seconds())+1), "-smt2", fmt.Sprintf("smt.random_seed=%d", seed), fmt.Sprintf("sat.random_seed=%d", seed)}
	}, ""},
	{"cvc5", "cvc5", func(t time.Duration, seed int) []string {
		return []string{fmt.Sprintf("--tlimit=%d", t.Milliseconds()), "--lang=smt2", fmt.Sprintf("--seed=%d", seed), "--produce-models"}
	}, ""},
	{"z3", "z3", func(t time.Duration, seed int) []string {
		return []string{fmt.Sprintf("-T:%d", int(t.Seconds())+1), "-smt2", fmt.Sprintf("smt.random_seed=%d", seed)}
	}, ""},
}

func (o *Obligation) script(e *Enc, extraAssume string, getValues []string) string {
	var b strings.Builder
	b.WriteString("(set-option :produce-models true)\n(set-logic ALL)\n")
	n := o.N
	if n > len(e.out) {
		n = len(e.out)
	}
	// relevance filter for axioms (see axiomLine)
	skip := map[int]bool{}
	if len(e.axiomLines) > 0 {
		isAx := map[int]bool{}
		for _, a := range e.axiomLines {
			for i := a.lo; i < a.hi && i < n; i++ {
				isAx[i] = true
			}
		}
		var rest strings.Builder
		for i, l := range e.out[:n] {
			if !isAx[i] || !strings.HasPrefix(l, "(assert") {
				if strings.HasPrefix(l, "(declare-") {
					continue // a declaration is not a use
				}
				rest.WriteString(l)
				rest.WriteByte('\n')
			}
		}
		for _, l := range o.Extra {
			rest.WriteString(l)
		}
		rest.WriteString(extraAssume + o.Reach + o.Goal + strings.Join(getValues, " "))
		text := rest.String()
		for _, a := range e.axiomLines {
			used := len(a.syms) == 0
			for _, sname := range a.syms {
				if strings.Contains(text, sname) {
					used = true
					break
				}
			}
			if !used {
				for i := a.lo; i < a.hi && i < n; i++ {
					if strings.HasPrefix(e.out[i], "(assert") {
						skip[i] = true
					}
				}
			}
		}
	}
	// second relevance filter (characteristic symbols, transitive): see irrelevantAxioms
	for i := range irrelevantAxioms(e.out[:n], append(append([]string{}, o.Extra...), extraAssume, o.Reach, o.Goal)) {
		skip[i] = true
	}
	for i, l := range e.out[:n] {
		if skip[i] {
			continue
		}
		b.WriteString(l)
		b.WriteByte('\n')
	}
	for _, l := range o.Extra {
		b.WriteString(l)
		b.WriteByte('\n')
	}
	b.WriteString("; obligation " + o.Name + "\n")
	if extraAssume != "" {
		b.WriteString("(assert " + extraAssume + ")\n")
	}
	if o.Reach != "true" && o.Reach != "" {
		b.WriteString("(assert " + o.Reach + ")\n")
	}
	b.WriteString(negatedGoal(o.Goal))
	b.WriteString("(check-sat)\n")
	if len(getValues) > 0 {
		b.WriteString("(get-value (" + strings.Join(getValues, " ") + "))\n")
	}
	b.WriteString("(get-model)\n")
	return b.String()
}

type solveOut struct {
	result    string
	solver    string
	seconds   float64
	model     string
	raw       string
	perSolver map[string]float64
	both      map[string]string // solver -> result (thorough: all solvers run to completion)
}

// runPortfolio runs all solvers on the script; first definitive answer wins (unless all==true).
func runPortfolio(script string, dir string, name string, timeout time.Duration, seed int, all bool) solveOut {
	file := filepath.Join(dir, name+".smt2")
	os.MkdirAll(dir, 0o700) // the scratch directory may have been removed by a clean-up job running beside the check
	if err := os.WriteFile(file, []byte(script), 0o644); err != nil {
		return solveOut{result: "error", raw: err.Error()}
	}
	// sliced variant: the same obligation with the quantified hypotheses that share no heap / ghost symbol with the goal
	// (transitively) left out. Fewer hypotheses => an `unsat` of the sliced script is an `unsat` of the full one (sound);
	// a `sat` of the sliced script means nothing and is ignored.
	slicedFile := ""
	if sl, dropped := sliceScript(script); dropped > 0 {
		slicedFile = filepath.Join(dir, name+".sliced.smt2")
		if err := os.WriteFile(slicedFile, []byte(sl), 0o644); err != nil {
			slicedFile = ""
		}
	}
	ctx, cancel := context.WithCancel(context.Background())
	defer cancel()
	type r struct {
		solver, result, out string
		secs                float64
	}
	type member struct {
		s      solverSpec
		file   string
		seed   int
		sliced bool
		label  string
	}
	var members []member
	for _, s := range solvers {
		members = append(members, member{s, file, seed, false, s.name})
	}
	{
		// a second z3 with another seed (quantifier instantiation order is seed-sensitive), and the sliced script.
		// The thorough tier (all == true) runs the same members, all at once, and waits until TWO of them agree (or all
		// have finished): every answer is cross-checked by a second solver / script variant.
		members = append(members, member{solvers[0], file, seed + 7, false, solvers[0].name + "/seed+7"})
		if seed != 0 {
			// the reference seed: whatever VERIF_SEED says, the portfolio also contains the runs the development
			// regression used (quantifier instantiation order is seed-sensitive; a proof found with seed 0 stays found)
			members = append(members, member{solvers[0], file, 0, false, solvers[0].name + "/seed0"})
			members = append(members, member{solvers[2], file, 0, false, solvers[2].name + "/seed0"})
		}
		if slicedFile != "" {
			members = append(members, member{solvers[0], slicedFile, seed, true, solvers[0].name + "/sliced"})
			members = append(members, member{solvers[2], slicedFile, seed, true, solvers[2].name + "/sliced"})
		}
		// strict slice (slice.go): only hypotheses about the discriminating heap components of the goal
		if st, ok := sliceScriptStrict(script); ok {
			sfile := filepath.Join(dir, name+".strict.smt2")
			if err := os.WriteFile(sfile, []byte(st), 0o644); err == nil {
				members = append(members, member{solvers[0], sfile, seed, true, solvers[0].name + "/strict"})
				members = append(members, member{solvers[1], sfile, seed, true, solvers[1].name + "/strict"})
				members = append(members, member{solvers[2], sfile, seed, true, solvers[2].name + "/strict"})
			}
		}
	}
	ch := make(chan r, len(members))
	var wg sync.WaitGroup
	for mi, m := range members {
		wg.Add(1)
		go func(mi int, m member) {
			s := m.s
			file := m.file
			seed := m.seed
			defer wg.Done()
			// staged start: the two z3 versions on the full script first; the other members (cvc5, second seed, sliced
			// scripts) only if no answer arrived within a short delay — most obligations are decided well before, and
			// the machine is not flooded with solver processes that would be cancelled at once
			_ = mi
			if !all && m.label != "z3-new" && m.label != "z3" {
				select {
				case <-ctx.Done():
					ch <- r{m.label, "unknown", "", 0}
					return
				case <-time.After(1500 * time.Millisecond):
				}
			}
			t0 := time.Now()
			cctx, ccancel := context.WithTimeout(ctx, timeout+2*time.Second)
			defer ccancel()
			cmd := exec.CommandContext(cctx, s.bin, append(s.args(timeout, seed), file)...)
			var out bytes.Buffer
			cmd.Stdout = &out
			cmd.Stderr = &out
			_ = cmd.Run()
			txt := out.String()
			first := strings.TrimSpace(strings.SplitN(txt, "\n", 2)[0])
			res := "unknown"
			switch {
			case first == "unsat":
				res = "unsat"
			case first == "sat":
				res = "sat"
			case first == "unknown":
				res = "unknown"
			case strings.Contains(first, "timeout") || cctx.Err() != nil:
				res = "timeout"
			case strings.HasPrefix(first, "(error") || strings.Contains(first, "rror"):
				res = "error"
			}
			if m.sliced && res != "unsat" {
				res = "unknown" // only a refutation of the sliced script carries over
				txt = ""
			}
			ch <- r{m.label, res, txt, time.Since(t0).Seconds()}
		}(mi, m)
	}
	go func() { wg.Wait(); close(ch) }()
	out := solveOut{result: "unknown", perSolver: map[string]float64{}, both: map[string]string{}}
	agree := 0
	var raws []string
	for x := range ch {
		out.perSolver[x.solver] = x.secs
		out.both[x.solver] = x.result
		raws = append(raws, x.solver+": "+truncStr(x.out, 400))
		if x.result == "sat" || x.result == "unsat" {
			if out.result != "sat" && out.result != "unsat" {
				out.result, out.solver, out.seconds = x.result, x.solver, x.secs
				if x.result == "sat" {
					if i := strings.Index(x.out, "\n"); i >= 0 {
						out.model = x.out[i+1:]
					}
				}
				if !all {
					cancel()
				}
			} else if out.result == x.result && all {
				// thorough tier: a second member agrees — enough, stop the remaining members
				agree++
				if agree >= 1 {
					cancel()
				}
			} else if out.result != x.result {
				out.raw = "SOLVER DISAGREEMENT: " + out.solver + "=" + out.result + " " + x.solver + "=" + x.result
				out.result = "error"
			} else if x.result == "sat" && out.model == "" {
				if i := strings.Index(x.out, "\n"); i >= 0 {
					out.model = x.out[i+1:]
				}
			}
		} else if x.result == "error" && out.result == "unknown" {
			out.raw += x.solver + ": " + truncStr(x.out, 300) + "\n"
		} else if x.result == "timeout" && out.result == "unknown" {
			out.result = "timeout"
		}
	}
	if out.result != "sat" && out.result != "unsat" {
		out.raw += strings.Join(raws, "\n")
	}
	return out
}

func truncStr(s string, n int) string {
	if len(s) > n {
		return s[:n] + "…"
	}
	return s
}

// parseModel extracts (define-fun name () Sort value) entries with simple values.
func parseModel(model string) map[string]string {
	out := map[string]string{}
	toks := tokenizeSexp(model)
	// scan for sequences: ( define-fun NAME ( ) SORT VALUE )
	for i := 0; i+4 < len(toks); i++ {
		if toks[i] == "define-fun" && toks[i+2] == "(" && toks[i+3] == ")" {
			name := toks[i+1]
			// sort: one token or balanced parens
			j := i + 4
			j = skipSexp(toks, j)
			k := skipSexp(toks, j)
			val := strings.Join(toks[j:k], " ")
			val = strings.ReplaceAll(val, "( ", "(")
			val = strings.ReplaceAll(val, " )", ")")
			out[strings.Trim(name, "|")] = val
		}
	}
	return out
}

func skipSexp(toks []string, j int) int {
	if j >= len(toks) {
		return j
	}
	if toks[j] != "(" {
		return j + 1
	}
	d := 0
	for ; j < len(toks); j++ {
		if toks[j] == "(" {
			d++
		} else if toks[j] == ")" {
			d--
			if d == 0 {
				return j + 1
			}
		}
	}
	return j
}

func tokenizeSexp(s string) []string {
	var out []string
	i := 0
	for i < len(s) {
		c := s[i]
		switch {
		case c == '(' || c == ')':
			out = append(out, string(c))
			i++
		case c == ' ' || c == '\n' || c == '\t' || c == '\r':
			i++
		case c == '|':
			j := strings.IndexByte(s[i+1:], '|')
			if j < 0 {
				out = append(out, s[i:])
				return out
			}
			out = append(out, s[i:i+j+2])
			i += j + 2
		case c == '"':
			j := strings.IndexByte(s[i+1:], '"')
			if j < 0 {
				return out
			}
			out = append(out, s[i:i+j+2])
			i += j + 2
		case c == ';':
			j := strings.IndexByte(s[i:], '\n')
			if j < 0 {
				return out
			}
			i += j
		default:
			j := i
			for j < len(s) && !strings.ContainsRune("() \n\t\r", rune(s[j])) {
				j++
			}
			out = append(out, s[i:j])
			i = j
		}
	}
	return out
}

// modelInt converts an SMT integer value "(- 5)" / "5" to decimal string.
func modelInt(v string) (string, bool) {
	v = strings.TrimSpace(v)
	if n, ok := isConstTerm(v); ok {
		return n.String(), true
	}
	return "", false
}

// ---------- hypothesis slicing ----------

var specificPrefixes = []string{"|F!", "|S!", "|P!", "|G!", "|MD!", "|MV!", "|RV!", "|ghost!", "|pure!", "|cseq!", "|box!", "|unbox!", "|impl!", "|gref!"}

// specificSymbols: base names (version suffix stripped) of the heap / ghost / pure-function symbols of an SMT line.
func specificSymbols(l string, into map[string]bool) {
	for i := 0; i < len(l); i++ {
		if l[i] != '|' {
			continue
		}
		j := strings.IndexByte(l[i+1:], '|')
		if j < 0 {
			return
		}
		name := l[i : i+j+2]
		i += j + 1
		ok := false
		for _, p := range specificPrefixes {
			if strings.HasPrefix(name, p) {
				ok = true
				break
			}
		}
		if !ok {
			continue
		}
		if k := strings.LastIndex(name, "@"); k > 0 {
			name = name[:k] // G!x@17| -> G!x
		}
		name = strings.TrimSuffix(name, "|")
		// append/copy temporaries of a backing array: S!T!.f!app -> S!T!.f
		name = strings.TrimSuffix(strings.TrimSuffix(name, "!app"), "!cpy")
		into[name] = true
	}
	for _, w := range []string{"strlen", "strcat", "strat", "substr", "bseq", "str2bytes", "bytes2str", "strless"} {
		if strings.Contains(l, "("+w+" ") {
			into[w] = true
		}
	}
}

// sliceScript drops the quantified assertions that are unrelated (no shared specific symbol, transitively through all
// assertions) to the obligation's goal. Returns the sliced script and the number of dropped assertions.
func sliceScript(script string) (string, int) {
	lines := strings.Split(script, "\n")
	goalAt := -1
	for i, l := range lines {
		if strings.HasPrefix(l, "; obligation ") {
			goalAt = i
		}
	}
	if goalAt < 0 {
		return script, 0
	}
	rel := map[string]bool{}
	for _, l := range lines[goalAt:] {
		specificSymbols(l, rel)
	}
	type as struct {
		idx  int
		syms map[string]bool
		q    bool
	}
	var asserts []as
	for i, l := range lines[:goalAt] {
		if !strings.HasPrefix(l, "(assert") {
			continue
		}
		m := map[string]bool{}
		specificSymbols(l, m)
		asserts = append(asserts, as{i, m, strings.Contains(l, "(forall ")})
	}
	for changed := true; changed; {
		changed = false
		for _, a := range asserts {
			hit := false
			for sname := range a.syms {
				if rel[sname] {
					hit = true
					break
				}
			}
			if !hit {
				continue
			}
			for sname := range a.syms {
				if !rel[sname] {
					rel[sname] = true
					changed = true
				}
			}
		}
	}
	drop := map[int]bool{}
	for _, a := range asserts {
		if !a.q {
			continue
		}
		hit := len(a.syms) == 0
		for sname := range a.syms {
			if rel[sname] {
				hit = true
				break
			}
		}
		if !hit {
			drop[a.idx] = true
		}
	}
	if len(drop) == 0 {
		return script, 0
	}
	var b strings.Builder
	for i, l := range lines {
		if drop[i] {
			continue
		}
		if l == "(get-model)" || strings.HasPrefix(l, "(get-value") {
			continue
		}
		b.WriteString(l)
		b.WriteByte('\n')
	}
	return b.String(), len(drop)
}

// ---------- axiom relevance ----------

// axiomSymRe: the specification-level symbols an SMT line talks about: ghost functions (|ghost!f|), ghost variables
// (|G!v@n| — every version counts as the variable), pure Go functions (|pure!...|) and the encoder's own string / byte
// string functions. strlen is deliberately absent (it occurs in every script and would make every string axiom relevant).
var axiomSymRe = regexp.MustCompile(`\|(ghost![^|]*|pure![^|]*|G![^|@]*)[@|]|\((strcat|substr|strat|strless) `)

func lineSyms(l string) []string {
	var out []string
	for _, m := range axiomSymRe.FindAllStringSubmatch(l, -1) {
		if m[1] != "" {
			out = append(out, m[1])
		} else {
			out = append(out, m[2])
		}
	}
	return out
}

// irrelevantAxioms returns the indices of axiom assertions (the line after a "; axiom <name>" comment) that cannot
// matter for this obligation: an axiom is kept iff it mentions no specification symbol at all (ground facts about Go
// objects) or one of its characteristic (rarest) symbols occurs in the rest of the script or — transitively — in a kept axiom. Dropping an assumption
// is always sound; it keeps quantified background theories of unrelated modules away from the solvers.
// VERIF_ALL_AXIOMS=1 disables the filter.
func irrelevantAxioms(lines []string, rest []string) map[int]bool {
	drop := map[int]bool{}
	if os.Getenv("VERIF_ALL_AXIOMS") != "" {
		return drop
	}
	used := map[string]bool{}
	type ax struct {
		idx  int
		syms []string
		char []string
		def  string // representation: the ghost variable it defines ("" for plain axioms)
	}
	var axs []ax
	for i, l := range lines {
		if i > 0 && strings.HasPrefix(lines[i-1], "; axiom ") && strings.HasPrefix(l, "(assert ") {
			syms := lineSyms(l)
			def := ""
			// a `representation` (comment "; axiom name defines G!g") DEFINES g from other state: it matters only where g
			// occurs AND that other state matters (judged, as for every axiom, by the rarest of the remaining symbols). Where
			// only g occurs the definition is an unused one: g is simply unconstrained by it
			if k := strings.Index(lines[i-1], " defines "); k > 0 {
				def = strings.TrimSpace(lines[i-1][k+len(" defines "):])
				var rest []string
				for _, s := range syms {
					if s != def {
						rest = append(rest, s)
					}
				}
				syms = rest
			}
			axs = append(axs, ax{idx: i, syms: syms, def: def})
			continue
		}
		if strings.HasPrefix(l, "(declare-") || strings.HasPrefix(l, ";") {
			continue
		}
		for _, s := range lineSyms(l) {
			used[s] = true
		}
	}
	for _, l := range rest {
		for _, s := range lineSyms(l) {
			used[s] = true
		}
	}
	// symbols that occur outside the axioms (the function's own state, contracts and goal), before any axiom is kept
	usedBase := map[string]bool{}
	for s := range used {
		usedBase[s] = true
	}
	// An axiom is "about" its rarest symbols (those mentioned by the fewest axioms): blen(keccak256(b)) == 32 is about
	// keccak256, not about blen. Only these characteristic symbols make it relevant; all its symbols count as used once
	// it is kept.
	freq := map[string]int{}
	for _, a := range axs {
		if a.def != "" {
			// definitions of abstract views (representations) are judged separately (a.def): they must not change which
			// symbols are "rare" for the background theories, or adding a view elsewhere drops byte-string axioms here
			continue
		}
		seen := map[string]bool{}
		for _, s := range a.syms {
			if !seen[s] {
				seen[s] = true
				freq[s]++
			}
		}
	}
	for i := range axs {
		minf := 0
		for _, s := range axs[i].syms {
			if minf == 0 || freq[s] < minf {
				minf = freq[s]
			}
		}
		for _, s := range axs[i].syms {
			if freq[s] == minf {
				axs[i].char = append(axs[i].char, s)
			}
		}
	}
	kept := map[int]bool{}
	for changed := true; changed; {
		changed = false
		for _, a := range axs {
			if kept[a.idx] {
				continue
			}
			rel := len(a.syms) == 0
			for _, s := range a.char {
				if used[s] {
					rel = true
					break
				}
			}
			if a.def != "" {
				// a definition of an abstract view matters only where the view AND the concrete state it is defined from
				// occur in the function's own text (not merely in another axiom that was kept): otherwise eight quantified
				// definitions ride along with every function that touches all layered views (RevertToSnapshot timed out)
				rel = usedBase[a.def]
				if rel {
					rel = false
					for _, s := range a.syms {
						if strings.HasPrefix(s, "G!") && usedBase[s] {
							rel = true
							break
						}
					}
				}
			}
			if rel {
				kept[a.idx] = true
				changed = true
				for _, s := range a.syms {
					used[s] = true
				}
				if a.def != "" {
					used[a.def] = true
				}
			}
		}
	}
	for _, a := range axs {
		if !kept[a.idx] {
			drop[a.idx] = true
		}
	}
	return drop
}

// negatedGoal: the assertions that refute a goal. A goal of the shape  A1 => ... => forall x. (B1 => ... => C)  is refuted
// by asserting the hypotheses A_i, B_i and (not C) over fresh constants for the bound variables (skolemisation by hand;
// equisatisfiable with (assert (not goal))). The solvers are markedly less stable on a negated quantifier that carries
// trigger annotations than on the skolemised form (measured on NewEVM#loop1.preserve: timeout for every seed vs. 0.1 s).
func negatedGoal(goal string) string {
	var b strings.Builder
	g := strings.TrimSpace(goal)
	for depth := 0; depth < 64; depth++ {
		parts := sexprParts(g)
		if len(parts) == 3 && parts[0] == "=>" {
			b.WriteString("(assert " + parts[1] + ")\n")
			g = parts[2]
			continue
		}
		if len(parts) == 3 && parts[0] == "forall" {
			binders := sexprParts(parts[1])
			ok := len(binders) > 0
			var decls []string
			for _, bd := range binders {
				nb := sexprParts(bd)
				if len(nb) != 2 || !strings.HasPrefix(nb[0], "|q!") {
					ok = false // only the engine's own, globally unique bound names are turned into constants
					break
				}
				decls = append(decls, "(declare-const "+nb[0]+" "+nb[1]+")\n")
			}
			if !ok {
				break
			}
			body := parts[2]
			if bp := sexprParts(body); len(bp) >= 2 && bp[0] == "!" {
				body = bp[1]
			}
			for _, d := range decls {
				b.WriteString(d)
			}
			g = body
			continue
		}
		break
	}
	b.WriteString("(assert " + not(g) + ")\n")
	return b.String()
}

// sexprParts splits the top-level elements of a parenthesised s-expression "(a b (c d) |x y|)" -> [a, b, (c d), |x y|];
// nil when s is not a parenthesised list.
func sexprParts(s string) []string {
	s = strings.TrimSpace(s)
	if len(s) < 2 || s[0] != '(' || s[len(s)-1] != ')' {
		return nil
	}
	var out []string
	i := 1
	n := len(s) - 1
	for i < n {
		for i < n && (s[i] == ' ' || s[i] == '\n' || s[i] == '\t') {
			i++
		}
		if i >= n {
			break
		}
		start := i
		switch s[i] {
		case '(':
			d := 0
			for ; i < n; i++ {
				if s[i] == '|' {
					j := strings.IndexByte(s[i+1:], '|')
					if j < 0 {
						return nil
					}
					i += j + 1
					continue
				}
				if s[i] == '(' {
					d++
				} else if s[i] == ')' {
					d--
					if d == 0 {
						i++
						break
					}
				}
			}
			if d != 0 {
				return nil
			}
		case '|':
			j := strings.IndexByte(s[i+1:], '|')
			if j < 0 {
				return nil
			}
			i += j + 2
		default:
			for i < n && s[i] != ' ' && s[i] != '\n' && s[i] != '\t' && s[i] != '(' {
				i++
			}
		}
		out = append(out, s[start:i])
	}
	return out
}
