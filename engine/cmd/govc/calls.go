package main

import (
	"fmt"
	"go/token"
	"go/types"
	"os"
	"strings"

	"golang.org/x/tools/go/ssa"
)

func (e *Enc) encCall(fr *Frame, st *State, in ssa.Value, cc *ssa.CallCommon, pos token.Pos) *Val {
	var fnv *Val
	if !cc.IsInvoke() {
		if _, isB := cc.Value.(*ssa.Builtin); !isB {
			fnv = e.val(fr, cc.Value)
		}
	}
	var args []*Val
	for _, a := range cc.Args {
		args = append(args, e.val(fr, a))
	}
	return e.callCommon(fr, st, cc, fnv, args, pos, in)
}

func resultType(cc *ssa.CallCommon) types.Type {
	sig := cc.Signature()
	switch sig.Results().Len() {
	case 0:
		return nil
	case 1:
		return sig.Results().At(0).Type()
	}
	return sig.Results()
}

func (e *Enc) callCommon(fr *Frame, st *State, cc *ssa.CallCommon, fnv *Val, args []*Val, pos token.Pos, in ssa.Value) *Val {
	rt := resultType(cc)
	fr.curCallClass = staticCallShort(cc)
	hint := fr.prefix + "call"
	if in != nil {
		hint = fr.prefix + in.Name()
	}
	if b, ok := cc.Value.(*ssa.Builtin); ok && !cc.IsInvoke() {
		return e.encBuiltin(fr, st, b, cc, args, rt, pos, hint)
	}
	// call-site assertions of the function under contract ("at call F@n assert ...")
	fr.siteInvs, fr.siteKey = nil, ""
	if fr.top && fr.contract != nil && len(fr.contract.CallInvariants) > 0 {
		if fr.ranks == nil {
			fr.ranks = computeRanks(fr.fn)
		}
		if r, ok := fr.ranks["call:"+fr.curCallClass][pos]; ok {
			key := fmt.Sprintf("call:%s@%d", fr.curCallClass, r)
			fr.siteInvs, fr.siteKey = fr.contract.CallInvariants[key], key
			if len(fr.siteInvs) > 0 && e.dry == 0 {
				fr.contract.callAssertSeen(key)
			}
		}
	}
	if fr.top && fr.contract != nil && len(fr.contract.CallAsserts) > 0 && e.dry == 0 {
		if fr.ranks == nil {
			fr.ranks = computeRanks(fr.fn)
		}
		if r, ok := fr.ranks["call:"+fr.curCallClass][pos]; ok {
			key := fmt.Sprintf("call:%s@%d", fr.curCallClass, r)
			for i, cl := range fr.contract.CallAsserts[key] {
				env := e.envFor(fr, st)
				// the actual arguments of the call are visible as arg1 .. argN (and recv for an interface method call),
				// unless the function has variables of these names
				for ai, a := range args {
					n := fmt.Sprintf("arg%d", ai+1)
					if _, taken := env.vars[n]; !taken && a != nil && a.Loc == nil && a.Clos == nil {
						env.vars[n] = a
					}
				}
				if cc.IsInvoke() {
					if _, taken := env.vars["recv"]; !taken {
						env.vars["recv"] = e.val(fr, cc.Value)
					}
				}
				g, err := env.evalBool(cl.E)
				if err != nil {
					e.unsupportedf("%s assert %s: %v", key, cl.Src, err)
					continue
				}
				fr.contract.callAssertSeen(key)
				e.addObl(&Obligation{Name: key + ":assert:" + clauseName(cl, i), Kind: "assert", Label: cl.Label, Clause: "at " + key + ": " + cl.Src, Reach: st.reach, Goal: g, Pos: e.posStr(pos)})
				// an assertion that has its own obligation is a lemma for everything that follows on this path
				e.assume(st, g)
			}
		}
	}
	if cc.IsInvoke() {
		recv := e.val(fr, cc.Value)
		if len(recv.L) != 2 {
			e.unsupportedf("invoke on malformed interface in %s", fr.fn)
			return e.defaultCall(fr, st, cc.Method.FullName(), append([]*Val{recv}, args...), rt, hint, pos)
		}
		key := cc.Method.FullName()
		// when the dynamic type is known, the concrete method is called (its contract, or its body)
		if n, ok := isConstTerm(recv.L[0].T); ok && n.Sign() > 0 {
			ct := e.TI.tagTyp[int(n.Int64())]
			if ct != nil {
				if fn := e.P.SSA.LookupMethod(ct, cc.Method.Pkg(), cc.Method.Name()); fn != nil {
					cc0, hasC := e.DB.Contracts[fnKey(fn)]
					_, hasI := e.DB.Contracts[key]
					if (hasC && cc0.callable()) || !hasI {
						rv := e.unboxAs(st, recv.L[1].T, ct)
						res := e.callStatic(fr, st, fn, nil, append([]*Val{rv}, args...), rt, hint, pos)
						// the interface method is `pure` as well: its value at this receiver is what the concrete method returned
						// (links clauses written over the interface value, e.g. st.msg.Value(), with the concrete call made here)
						if cI := e.DB.Contracts[key]; hasI && cI.Pure && rt != nil && res != nil && res.Loc == nil && res.Clos == nil {
							iv := e.pureApp(cI, append([]*Val{recv}, args...), rt, st)
							if len(iv.L) == len(res.L) {
								for i := range iv.L {
									if iv.L[i].S == res.L[i].S {
										e.assume(st, eq(iv.L[i].T, res.L[i].T))
									}
								}
							}
						}
						return res
					}
				}
			}
		}
		if c, ok := e.DB.Contracts[key]; ok && c.callable() {
			c = e.pickAlt(c, append([]*Val{recv}, args...))
			e.safety(fr, st, "nil", not(eq(recv.L[0].T, "0")), "method call on nil interface "+cc.Method.Name(), pos)
			return e.applyContract(fr, st, c, append([]*Val{recv}, args...), rt, hint, pos)
		}
		e.safety(fr, st, "nil", not(eq(recv.L[0].T, "0")), "method call on nil interface "+cc.Method.Name(), pos)
		// no contract on the interface method and the dynamic type is not known: when the interface has few implementations
		// in the packages under verification, split on the dynamic type (concrete method: its contract or its body) and keep
		// the unknown-callee treatment for every other dynamic type
		if cands := e.implementers(cc.Value.Type(), cc.Method); len(cands) > 0 && len(cands) <= 8 && st.reach != "false" {
			return e.dispatchInvoke(fr, st, cc, recv, args, cands, key, rt, hint, pos)
		}
		return e.defaultCall(fr, st, key, append([]*Val{recv}, args...), rt, hint, pos)
	}
	if fnv != nil && fnv.Clos != nil {
		return e.callStatic(fr, st, fnv.Clos.Fn, fnv.Clos.Bind, args, rt, hint, pos)
	}
	if fnv != nil && len(fnv.Alts) > 0 {
		// one of several known closures, depending on the path: case split
		var sts []*State
		var conds []string
		var ress []*Val
		for _, a := range fnv.Alts {
			sa := st.clone()
			sa.reach = and(st.reach, a.Cond)
			if sa.reach == "false" {
				continue
			}
			r := e.callStatic(fr, sa, a.Clos.Fn, a.Clos.Bind, args, rt, hint, pos)
			if sa.reach == "false" {
				continue
			}
			sts = append(sts, sa)
			conds = append(conds, sa.reach)
			ress = append(ress, r)
		}
		if len(sts) == 0 {
			st.reach = "false"
			if rt == nil {
				return &Val{}
			}
			return e.zeroVal(rt)
		}
		m := e.mergeStates(hint+"!alts", sts, conds)
		*st = *m
		if rt == nil {
			return &Val{}
		}
		return e.mergeVals(hint+"!altres", ress, conds)
	}
	if fn := cc.StaticCallee(); fn != nil {
		var binds []*Val
		if mc, ok := cc.Value.(*ssa.MakeClosure); ok {
			for _, b := range mc.Bindings {
				binds = append(binds, e.val(fr, b))
			}
		}
		return e.callStatic(fr, st, fn, binds, args, rt, hint, pos)
	}
	// call through a package-level variable of function type: a contract may be attached to the variable
	if ld, ok := cc.Value.(*ssa.UnOp); ok && ld.Op == token.MUL {
		if g, ok := ld.X.(*ssa.Global); ok && g.Pkg != nil && g.Pkg.Pkg != nil {
			if c, ok := e.DB.Contracts["varcall:"+g.Pkg.Pkg.Path()+"."+g.Name()]; ok && c.callable() {
				return e.applyContract(fr, st, c, append([]*Val{fnv}, args...), rt, hint, pos)
			}
		}
	}
	// dynamic function value: a contract may be attached to its named function type
	dk := "dyncall:" + typeStr(cc.Value.Type())
	if c, ok := e.DB.Contracts[dk]; ok && c.callable() {
		// the function value itself is bound to the name `callee` in a functype contract
		return e.applyContract(fr, st, c, append([]*Val{fnv}, args...), rt, hint, pos)
	}
	// an unknown function VALUE may be a closure over anything: whatever its arguments are, it can mutate every heap
	// object and every component of the abstract state
	e.havocAll(st)
	return e.defaultCall(fr, st, dk, args, rt, hint, pos)
}

// implementers: the concrete types declared in the root packages (T and *T, in a fixed order) whose method set satisfies
// the interface type it and whose method m has a body or a callable contract.
func (e *Enc) implementers(it types.Type, m *types.Func) []types.Type {
	iface, ok := it.Underlying().(*types.Interface)
	if !ok {
		return nil
	}
	k := typeStr(it) + "." + m.Name()
	if c, ok := e.implCache[k]; ok {
		return c
	}
	var out []types.Type
	for _, path := range sortedKeys(e.P.Roots) {
		sp := e.P.Roots[path]
		for _, name := range sortedKeys(sp.Members) {
			tm, ok := sp.Members[name].(*ssa.Type)
			if !ok {
				continue
			}
			T := tm.Type()
			if _, isI := T.Underlying().(*types.Interface); isI {
				continue
			}
			if nt, ok := T.(*types.Named); ok && nt.TypeParams().Len() > 0 {
				continue
			}
			for _, ct := range []types.Type{T, types.NewPointer(T)} {
				if !types.Implements(ct, iface) {
					continue
				}
				fn := e.P.SSA.LookupMethod(ct, m.Pkg(), m.Name())
				if fn == nil {
					continue
				}
				if c0, hasC := e.DB.Contracts[fnKey(fn)]; fn.Blocks != nil || (hasC && c0.callable()) {
					out = append(out, ct)
				}
			}
		}
	}
	if e.implCache == nil {
		e.implCache = map[string][]types.Type{}
	}
	e.implCache[k] = out
	return out
}

// declaredInRoots: the (named) type is declared in one of the packages under verification.
func (e *Enc) declaredInRoots(t types.Type) bool {
	nt, ok := t.(*types.Named)
	if !ok || nt.Obj() == nil || nt.Obj().Pkg() == nil {
		return false
	}
	_, ok = e.P.Roots[nt.Obj().Pkg().Path()]
	return ok
}

// dispatchInvoke: interface method call with unknown dynamic type, split over the candidate implementations.
func (e *Enc) dispatchInvoke(fr *Frame, st *State, cc *ssa.CallCommon, recv *Val, args []*Val, cands []types.Type, key string, rt types.Type, hint string, pos token.Pos) *Val {
	var sts []*State
	var conds []string
	var ress []*Val
	var others []string
	for i, ct := range cands {
		isT := eq(recv.L[0].T, fmt.Sprint(e.TI.tagOf(ct)))
		others = append(others, not(isT))
		b := st.clone()
		b.reach = e.nameBool(fmt.Sprintf("%s!dyn%d", hint, i), and(st.reach, isT))
		fn := e.P.SSA.LookupMethod(ct, cc.Method.Pkg(), cc.Method.Name())
		rv := e.unboxAs(b, recv.L[1].T, ct)
		r := e.callStatic(fr, b, fn, nil, append([]*Val{rv}, args...), rt, fmt.Sprintf("%s!d%d", hint, i), pos)
		if b.reach == "false" {
			continue
		}
		sts, conds, ress = append(sts, b), append(conds, b.reach), append(ress, r)
	}
	if e.declaredInRoots(cc.Value.Type()) {
		// the interface is declared in a package under verification: its implementations are the ones found there. That the
		// dynamic type is one of them is an OBLIGATION of the caller (never assumed silently); under it no unknown callee
		// remains. (Havocking everything on an "other type" branch would make every heap component of the function a
		// written one.)
		var isOne []string
		for _, o := range others {
			isOne = append(isOne, not(o))
		}
		g := or(isOne...)
		e.addObl(&Obligation{Name: e.site(fr, "call:"+fr.curCallClass, pos) + ":known_dynamic_type", Kind: "requires", Label: "", Clause: "the dynamic type of the receiver of " + key + " is one of its implementations in the packages under verification", Reach: st.reach, Goal: g, Pos: e.posStr(pos)})
		e.assume(st, g)
	} else {
		d := st.clone()
		d.reach = e.nameBool(hint+"!dynother", and(append([]string{st.reach}, others...)...))
		r := e.defaultCall(fr, d, key, append([]*Val{recv}, args...), rt, hint+"!dx", pos)
		sts, conds, ress = append(sts, d), append(conds, d.reach), append(ress, r)
	}
	if len(sts) == 0 {
		st.reach = "false"
		if rt == nil {
			return &Val{}
		}
		return e.zeroVal(rt)
	}
	m := e.mergeStates(hint+"!dyn", sts, conds)
	*st = *m
	if rt == nil {
		return &Val{}
	}
	res := e.mergeVals(hint+"!dynres", ress, conds)
	if res != nil && res.Clos == nil && res.Loc == nil {
		r2 := *res
		r2.T = rt
		return &r2
	}
	return res
}

// callAssertSeen records that the call site named by key exists (a call-site assertion whose site has disappeared is an
// undischarged obligation, reported by verifyFunction).
func (c *Contract) callAssertSeen(key string) {
	if c.callSeen == nil {
		c.callSeen = map[string]bool{}
	}
	c.callSeen[key] = true
}

func (c *Contract) callable() bool {
	return c != nil && (len(c.Requires) > 0 || len(c.Ensures) > 0 || c.HasModifies || c.PanicMode != "" || c.Pure || c.Assumed)
}

func fnKey(fn *ssa.Function) string {
	if o, ok := fn.Object().(*types.Func); ok && o != nil {
		return o.FullName()
	}
	if fn.Origin() != nil {
		if o, ok := fn.Origin().Object().(*types.Func); ok && o != nil {
			return o.FullName()
		}
	}
	return fn.String()
}

// nondetPrefixes: functions whose result differs between nodes executing the same block.
var nondetPrefixes = []string{"time.Now", "time.Since", "time.Until", "math/rand.", "math/rand/v2.", "crypto/rand.", "os.Getenv", "os.LookupEnv", "os.Environ", "os.Hostname", "os.Getpid", "runtime.NumCPU", "runtime.NumGoroutine", "runtime.GOMAXPROCS", "runtime.Caller", "runtime.Stack"}

func isNondetSource(key string) bool {
	for _, p := range nondetPrefixes {
		if key == p || (strings.HasSuffix(p, ".") && strings.HasPrefix(key, p)) {
			return true
		}
	}
	return false
}

func (e *Enc) callStatic(fr *Frame, st *State, fn *ssa.Function, binds []*Val, args []*Val, rt types.Type, hint string, pos token.Pos) *Val {
	key := fnKey(fn)
	if e.top != nil && e.top.contract != nil && e.top.contract.Deterministic && e.dry == 0 && isNondetSource(key) {
		e.addObl(&Obligation{Name: e.site(fr, "nondet:"+key, pos), Kind: "deterministic", Label: e.top.contract.DetLabel, Clause: "deterministic — call of the node-local source " + key, Reach: st.reach, Goal: "false", Pos: e.posStr(pos)})
	}
	if c, ok := e.DB.Contracts[key]; ok && c.callable() && len(binds) == 0 {
		return e.applyContract(fr, st, c, args, rt, hint, pos)
	}
	if c, ok := e.DB.Contracts[key]; ok && c.callable() && c.closure && len(binds) == len(fn.FreeVars) {
		// a closure with its own contract: the captured variables' cells are the bindings
		cells := map[string]*Val{}
		for i, fv := range fn.FreeVars {
			if b := binds[i]; b != nil && isPointer(fv.Type()) && b.Loc == nil && b.Clos == nil {
				cells[fv.Name()] = b
			}
		}
		saved := e.applyCells
		e.applyCells = cells
		r := e.applyContract(fr, st, c, args, rt, hint, pos)
		e.applyCells = saved
		return r
	}
	if fn.Blocks != nil && e.canInline(fr, fn) {
		return e.inline(fr, st, fn, binds, args, rt, hint, pos)
	}
	// synthetic wrappers without bodies in dependency packages: bound method / thunk -> resolve target
	return e.defaultCall(fr, st, key, args, rt, hint, pos)
}

func (e *Enc) canInline(fr *Frame, fn *ssa.Function) bool {
	if fr.depth >= e.maxInline {
		return false
	}
	for _, f := range fr.stack {
		if f == fn {
			return false
		}
	}
	if fr.fn == fn {
		return false
	}
	return true
}

func (e *Enc) inline(fr *Frame, st *State, fn *ssa.Function, binds []*Val, args []*Val, rt types.Type, hint string, pos token.Pos) *Val {
	if e.dry == 0 {
		e.inlined[fn.String()]++
	}
	e.nfresh++
	nf := &Frame{fn: fn, vals: map[ssa.Value]*Val{}, prefix: fmt.Sprintf("%s%s#%d!", fr.prefix, shortFn(fn), e.nfresh), depth: fr.depth + 1,
		parent: fr, stack: append(append([]*ssa.Function(nil), fr.stack...), fr.fn)}
	if len(args) != len(fn.Params) {
		e.unsupportedf("argument count mismatch calling %s", fn)
		return e.defaultCall(fr, st, fnKey(fn), args, rt, hint, pos)
	}
	for i, p := range fn.Params {
		nf.vals[p] = args[i]
	}
	for i, fv := range fn.FreeVars {
		if i < len(binds) {
			nf.vals[fv] = binds[i]
		}
	}
	nf.args = args
	nf.entry = st.clone()
	nDefers := len(st.defers)
	e.encodeBody(nf, st)
	if len(nf.exits) == 0 {
		st.reach = "false"
		if rt == nil {
			return &Val{}
		}
		return e.zeroVal(rt)
	}
	var sts []*State
	var conds []string
	var ress []*Val
	for _, x := range nf.exits {
		if x.st.reach == "false" {
			continue
		}
		sts = append(sts, x.st)
		conds = append(conds, x.st.reach)
		ress = append(ress, x.res)
	}
	if len(sts) == 0 {
		st.reach = "false"
		if rt == nil {
			return &Val{}
		}
		return e.zeroVal(rt)
	}
	m := e.mergeStates(nf.prefix+"ret", sts, conds)
	if len(m.defers) > nDefers {
		// callee's defers were run by its RunDefers; anything left belongs to callers
		var keep []*deferRec
		for _, d := range m.defers {
			if d.fr != nf {
				keep = append(keep, d)
			}
		}
		m.defers = keep
	}
	*st = *m
	if rt == nil {
		return &Val{}
	}
	res := e.mergeVals(nf.prefix+"res", ress, conds)
	if res != nil && res.Clos == nil && res.Loc == nil {
		r2 := *res
		r2.T = rt
		return &r2
	}
	return res
}

// defaultCall: unknown callee. Result unconstrained; every heap object the callee could reach is havocked.
func (e *Enc) defaultCall(fr *Frame, st *State, key string, args []*Val, rt types.Type, hint string, pos token.Pos) *Val {
	if e.dry == 0 {
		e.unspecCalls[key]++
		if os.Getenv("VERIF_DEBUG") != "" {
			fmt.Fprintf(os.Stderr, "debug: unspecified call %s in %s\n", key, fr.fn)
		}
	}
	mutates := false
	for _, a := range args {
		if a == nil {
			continue
		}
		if a.Loc != nil || a.Clos != nil {
			mutates = true
			continue
		}
		if a.T == nil {
			continue
		}
		if e.mayReachHeap(a.T, 0) {
			mutates = true
		}
	}
	if mutates {
		e.havocAll(st)
	}
	if rt == nil {
		return &Val{}
	}
	return e.freshVal(st, hint, rt)
}

// mayReachHeap: could a value of type t give a callee access to mutable heap objects we model?
func (e *Enc) mayReachHeap(t types.Type, depth int) bool {
	if depth > 6 {
		return true
	}
	if e.DB.Immutable[typeStr(t)] {
		return false
	}
	if e.DB.Handles[typeStr(t)] {
		return true
	}
	if _, ok := e.TI.opaqueSort(t); ok {
		return false
	}
	switch u := t.Underlying().(type) {
	case *types.Basic:
		return false
	case *types.Pointer:
		if e.DB.Immutable[typeStr(u.Elem())] {
			return false
		}
		return true
	case *types.Map, *types.Chan, *types.Signature, *types.Interface:
		return true
	case *types.Slice:
		return true
	case *types.Array:
		return e.mayReachHeap(u.Elem(), depth+1)
	case *types.Struct:
		for i := 0; i < u.NumFields(); i++ {
			if e.mayReachHeap(u.Field(i).Type(), depth+1) {
				return true
			}
		}
		return false
	case *types.Tuple:
		for i := 0; i < u.Len(); i++ {
			if e.mayReachHeap(u.At(i).Type(), depth+1) {
				return true
			}
		}
	}
	return false
}

func (e *Enc) havocAll(st *State) {
	for _, k := range sortedKeys(e.heapSort) {
		if strings.HasPrefix(k, "RV|") {
			continue
		}
		if strings.HasPrefix(k, "P|") && strings.Contains(k, "gvar!") {
			continue
		}
		st.heap[k] = e.fresh(k, e.heapSort[k])
		e.writeLog[k] = true
	}
	e.havocUnknown(st)
	e.bumpAlloc(st)
}

// ---------- contracts at call sites ----------

func (e *Enc) bindParams(c *Contract, args []*Val, sig *types.Signature) map[string]*Val {
	vars := map[string]*Val{}
	i := 0
	if c.funcType != "" {
		// call through a value of a named func type: args[0] is the function value
		if len(args) > 0 {
			vars["callee"] = args[0]
			i = 1
		}
	} else if sig.Recv() != nil || c.RecvName != "" {
		if len(args) > 0 {
			if c.RecvName != "" {
				vars[c.RecvName] = args[0]
			}
			vars["_recv"] = args[0]
			i = 1
		}
	}
	for j, n := range c.Params {
		if i+j < len(args) && n != "_" {
			vars[n] = args[i+j]
		}
	}
	return vars
}

func (e *Enc) applyContract(fr *Frame, st *State, c *Contract, args []*Val, rt types.Type, hint string, pos token.Pos) *Val {
	if e.dry == 0 {
		e.usedContracts[c.Key]++
		if c.Assumed {
			e.assumedUsed[c.Key]++
		}
	}
	if e.top != nil && e.top.contract != nil && e.top.contract.Deterministic && e.dry == 0 && !c.Deterministic && !c.Assumed && !c.Pure && c.funcType == "" && strings.HasSuffix(c.File, ".go") && !(c.Sig != nil && c.Sig.Recv() != nil && types.IsInterface(c.Sig.Recv().Type())) {
		// a verified function of the repository that is not itself checked for node-local sources
		e.addObl(&Obligation{Name: e.site(fr, "nondet:callee-not-deterministic:"+c.Key, pos), Kind: "deterministic", Label: e.top.contract.DetLabel, Clause: "deterministic — callee " + c.Key + " has a contract without a `deterministic` clause", Reach: st.reach, Goal: "false", Pos: e.posStr(pos)})
	}
	sig := c.Sig
	vars := e.bindParams(c, args, sig)
	short := c.funcType
	if c.closure {
		short = c.funcName
	}
	if c.Obj != nil {
		short = c.Obj.Name()
		if sig.Recv() != nil {
			short = recvShort(sig.Recv().Type()) + "." + short
		}
	}
	siteName := e.site(fr, "call:"+short, pos)
	env := &Env{e: e, vars: vars, st: st, old: st, pkgPath: c.PkgPath, imports: c.Imports, fr: nil, cells: e.applyCells}
	for i, rq := range c.Requires {
		g, err := env.evalBool(rq.E)
		if err != nil {
			e.unsupportedf("requires of %s: %v", c.Key, err)
			continue
		}
		e.addObl(&Obligation{Name: siteName + ":" + clauseName(rq, i), Kind: "requires", Label: rq.Label, Clause: rq.Src, Reach: st.reach, Goal: g, Pos: e.posStr(pos)})
		// continue under the precondition (standard: after checking, assume)
		e.assume(st, g)
	}
	pre := st.clone()
	// panics
	switch c.PanicMode {
	case "never":
	case "":
		if !c.Assumed {
			e.addPanic(fr, st, "callpanic:"+short, "true", "callee "+c.Key+" has no panics clause", pos)
		}
	case "any":
		e.addPanic(fr, st, "callpanic:"+short, "true", "callee "+c.Key+" may panic", pos)
	case "only_if", "iff":
		penv := &Env{e: e, vars: vars, st: pre, old: pre, pkgPath: c.PkgPath, imports: c.Imports, cells: e.applyCells}
		p, err := penv.evalBool(c.PanicCond)
		if err != nil {
			e.unsupportedf("panics clause of %s: %v", c.Key, err)
		} else {
			e.addPanic(fr, st, "callpanic:"+short, p, "callee "+c.Key+" panics when "+c.PanicSrc, pos)
			if c.PanicMode == "iff" {
				st.reach = e.nameBool(fr.prefix+"np", and(st.reach, not(p)))
			}
		}
	}
	// frame
	if !c.Pure {
		if !c.HasModifies && !c.Assumed {
			// a repo contract without modifies clause: conservatively havoc everything
			e.havocAll(st)
		} else {
			menv := &Env{e: e, vars: vars, st: pre, old: pre, pkgPath: c.PkgPath, imports: c.Imports, cells: e.applyCells}
			// the callee may allocate and may store what it allocated into the targets it modifies: the allocation counter
			// moves BEFORE the targets are havocked, so that the typing fact "a reference read from memory is <= alloc" of a
			// havocked reference leaf refers to the counter AFTER the call (it contradicted `ensures fresh(p.f)` otherwise)
			e.bumpAlloc(st)
			for i, m := range c.Modifies {
				cond := "true"
				if i < len(c.ModWhen) && c.ModWhen[i] != nil {
					t, err := menv.evalBool(c.ModWhen[i])
					if err != nil {
						e.unsupportedf("modifies condition of %s: %v", c.Key, err)
					} else {
						cond = t
					}
				}
				if cond == "false" {
					continue // this call cannot modify the target: it is neither havocked nor counted as written
				}
				if id, ok := m.(*ECall); ok {
					if fid, ok := id.Fun.(*EIdent); ok && fid.Name == "effects" && len(id.Args) == 1 {
						e.havocEffects(fr, st, menv, id.Args[0], c)
						continue
					}
				}
				if cond == "true" {
					if err := menv.havocTarget(st, m); err != nil {
						e.unsupportedf("modifies %s of %s: %v", c.ModSrc[i], c.Key, err)
					}
					continue
				}
				// conditional havoc: new value where the condition holds, the old value elsewhere
				before := map[string]string{}
				for k, t := range st.heap {
					before[k] = t
				}
				if err := menv.havocTarget(st, m); err != nil {
					e.unsupportedf("modifies %s of %s: %v", c.ModSrc[i], c.Key, err)
					continue
				}
				for _, k := range sortedKeys(st.heap) {
					t := st.heap[k]
					old, had := before[k]
					if had && old == t {
						continue
					}
					if !had {
						old = e.heapGet(pre, k, e.heapSort[k])
					}
					n := e.fresh(k, e.heapSort[k])
					e.assert(eq(n, ite(cond, t, old)))
					st.heap[k] = n
				}
			}
		}
		// hidden modifies: the concrete state behind an abstraction changes too; the caller loses what it knew about it,
		// but its own frame clause is not asked to mention it
		if len(c.HiddenMod) > 0 {
			menv := &Env{e: e, vars: vars, st: pre, old: pre, pkgPath: c.PkgPath, imports: c.Imports, cells: e.applyCells}
			if hfp, err := menv.footprintOfTargets(c.HiddenMod, nil); err != nil || hfp.all || len(hfp.whole) > 0 {
				e.unsupportedf("hidden modifies of %s: only indexed targets are supported (%v)", c.Key, err)
			} else {
				if e.hiddenIdx == nil {
					e.hiddenIdx = map[string][]string{}
				}
				for _, k := range sortedKeys(hfp.idx) {
					for _, i := range hfp.idx[k] {
						dup := false
						for _, o := range e.hiddenIdx[k] {
							dup = dup || o == i
						}
						if !dup {
							e.hiddenIdx[k] = append(e.hiddenIdx[k], i)
						}
					}
				}
				for i, m := range c.HiddenMod {
					if err := menv.havocTarget(st, m); err != nil {
						e.unsupportedf("hidden modifies %s of %s: %v", c.HiddenSrc[i], c.Key, err)
					}
				}
				if e.dry == 0 {
					e.assumedUsed["hidden modifies of "+c.Key]++
				}
			}
		}
		if !c.Assumed {
			// a verified callee may have handed out identities of the allocator ghost variables (not part of its frame)
			for _, g := range sortedKeys(e.DB.Allocators) {
				gv, ok := e.DB.GhostVars[g]
				if !ok {
					continue
				}
				srt, _, err := e.resolveTypeExpr(gv.T, gv.PkgPath, gv.Imports)
				if err != nil || !strings.HasSuffix(srt, " Bool)") {
					continue
				}
				ks, _ := splitArraySort(srt)
				before := e.heapGet(st, "G|"+g, srt)
				e.heapHavoc(st, "G|"+g)
				after := st.heap["G|"+g]
				e.assert("(forall ((l " + ks + ")) (! (=> (select " + before + " l) (select " + after + " l)) :pattern ((select " + after + " l))))")
			}
		}
	}
	var res *Val
	if rt != nil {
		if c.Pure {
			res = e.pureApp(c, args, rt, st)
		} else {
			res = e.freshVal(st, hint, rt)
		}
	} else {
		res = &Val{}
	}
	env2 := &Env{e: e, vars: copyVals(vars), st: st, old: pre, pkgPath: c.PkgPath, imports: c.Imports, cells: e.applyCells}
	env2.bindResults(c, res, rt)
	for _, en := range c.Ensures {
		g, err := env2.evalBool(en.E)
		if err != nil {
			e.unsupportedf("ensures of %s: %v", c.Key, err)
			continue
		}
		if en.Trusted && e.dry == 0 {
			e.assumedUsed["trusted ensures of "+c.Key]++
		}
		e.assume(st, g)
	}
	return res
}

func recvShort(t types.Type) string {
	s := typeStr(t)
	star := ""
	if strings.HasPrefix(s, "*") {
		star = "*"
		s = s[1:]
	}
	if i := strings.LastIndex(s, "/"); i >= 0 {
		s = s[i+1:]
	}
	return star + s
}

func copyVals(m map[string]*Val) map[string]*Val {
	o := make(map[string]*Val, len(m))
	for k, v := range m {
		o[k] = v
	}
	return o
}

func (env *Env) bindResults(c *Contract, res *Val, rt types.Type) {
	if rt == nil || res == nil {
		return
	}
	env.vars["result"] = res
	if tu, ok := rt.(*types.Tuple); ok {
		for i := 0; i < tu.Len(); i++ {
			lo, hi := env.e.TI.tupleRange(tu, i)
			if hi <= len(res.L) {
				v := &Val{T: tu.At(i).Type(), L: res.L[lo:hi]}
				env.vars[fmt.Sprintf("result.%d", i)] = v
				if i < len(c.Results) && c.Results[i] != "" {
					env.vars[c.Results[i]] = v
				}
			}
		}
	} else if len(c.Results) == 1 && c.Results[0] != "" {
		env.vars[c.Results[0]] = res
	}
}

// pureApp: result of a pure function = uninterpreted function of the argument leaves.
func (e *Enc) pureApp(c *Contract, args []*Val, rt types.Type, st *State) *Val {
	var sorts, terms []string
	for _, a := range args {
		if a.Loc != nil || a.Clos != nil {
			e.unsupportedf("pure function %s applied to closure/interior pointer", c.Key)
			return e.freshVal(st, "pure", rt)
		}
		for _, l := range a.L {
			sorts = append(sorts, l.S)
			terms = append(terms, l.T)
		}
	}
	v := &Val{T: rt}
	for _, lf := range e.TI.shape(rt) {
		name := sym("pure!" + c.Key + "!" + lf.Path)
		var t string
		if len(sorts) == 0 {
			e.declConst(name, lf.Sort)
			t = name
		} else {
			e.declFun(name, sorts, lf.Sort)
			t = "(" + name + " " + strings.Join(terms, " ") + ")"
		}
		v.L = append(v.L, Sc{t, lf.Sort})
		e.typeAssume(st, lf, t)
	}
	e.sliceWellFormed(v)
	return v
}

// ---------- builtins ----------

func (e *Enc) encBuiltin(fr *Frame, st *State, b *ssa.Builtin, cc *ssa.CallCommon, args []*Val, rt types.Type, pos token.Pos, hint string) *Val {
	switch b.Name() {
	case "len", "cap":
		x := args[0]
		switch cc.Args[0].Type().Underlying().(type) {
		case *types.Slice:
			if len(x.L) == 4 {
				if b.Name() == "len" {
					return &Val{T: rt, L: []Sc{x.L[2]}}
				}
				return &Val{T: rt, L: []Sc{x.L[3]}}
			}
		case *types.Basic:
			e.declFun("strlen", []string{"Str"}, "Int")
			t := "(strlen " + x.L[0].T + ")"
			e.assert("(<= 0 " + t + ")")
			return &Val{T: rt, L: []Sc{{t, "Int"}}}
		case *types.Map:
			// cardinality is not modelled: uninterpreted but functional in the domain
			mt := cc.Args[0].Type()
			ksort, dk, ds, _, ok := e.mapKeys(mt)
			if ok && len(x.L) == 1 {
				f := e.declFun(sym("card!"+ksort), []string{"(Array " + ksort + " Bool)"}, "Int")
				dom := e.heapGet(st, dk, ds)
				t := "(" + f + " (select " + dom + " " + x.L[0].T + "))"
				e.assert("(<= 0 " + t + ")")
				e.assert("(= (" + f + " ((as const (Array " + ksort + " Bool)) false)) 0)")
				// a (finite) map has no entries iff its key set is empty
				e.assert("(= (= " + t + " 0) (= (select " + dom + " " + x.L[0].T + ") ((as const (Array " + ksort + " Bool)) false)))")
				return &Val{T: rt, L: []Sc{{ite(eq(x.L[0].T, "0"), "0", t), "Int"}}}
			}
		case *types.Array:
			arr := cc.Args[0].Type().Underlying().(*types.Array)
			return &Val{T: rt, L: []Sc{{fmt.Sprint(arr.Len()), "Int"}}}
		case *types.Pointer:
			if arr, ok := cc.Args[0].Type().Underlying().(*types.Pointer).Elem().Underlying().(*types.Array); ok {
				return &Val{T: rt, L: []Sc{{fmt.Sprint(arr.Len()), "Int"}}}
			}
		}
	case "append":
		return e.encAppend(fr, st, cc, args, rt, hint)
	case "copy":
		return e.encCopy(fr, st, cc, args, rt, hint)
	case "delete":
		m, k := args[0], args[1]
		if len(m.L) == 1 && len(k.L) == 1 {
			e.mapDelete(st, cc.Args[0].Type(), m.L[0].T, k.L[0].T)
			return &Val{}
		}
	case "recover":
		// only non-panicking executions are modelled through deferred calls
		e.notes = append(e.notes, "recover() modelled as returning nil (no panic in flight) in "+fr.fn.String())
		return e.zeroVal(rt)
	case "print", "println":
		return &Val{}
	case "min", "max":
		if len(args) == 2 && len(args[0].L) == 1 && args[0].L[0].S == "Int" {
			a, c := args[0].L[0].T, args[1].L[0].T
			if b.Name() == "min" {
				return &Val{T: rt, L: []Sc{{ite("(<= "+a+" "+c+")", a, c), "Int"}}}
			}
			return &Val{T: rt, L: []Sc{{ite("(>= "+a+" "+c+")", a, c), "Int"}}}
		}
	case "clear":
		if _, ok := cc.Args[0].Type().Underlying().(*types.Map); ok && len(args[0].L) == 1 {
			mt := cc.Args[0].Type()
			ksort, dk, ds, _, ok := e.mapKeys(mt)
			if ok {
				h := e.heapGet(st, dk, ds)
				e.heapSet(st, dk, ds, "(store "+h+" "+args[0].L[0].T+" ((as const (Array "+ksort+" Bool)) false))")
				return &Val{}
			}
		}
	case "ssa:wrapnilchk":
		e.safety(fr, st, "nil", not(eq(args[0].L[0].T, "0")), "nil receiver", pos)
		return args[0]
	}
	e.unsupportedf("builtin %s on %s in %s", b.Name(), typeStr(cc.Args[0].Type()), fr.fn)
	if rt == nil {
		return &Val{}
	}
	return e.freshVal(st, hint, rt)
}

func (e *Enc) sliceHeaps(st *State, elem types.Type) (keys, sorts, esorts []string) {
	for _, lf := range e.TI.shape(elem) {
		k := "S|" + typeStr(elem) + "|" + lf.Path
		s := "(Array Int (Array Int " + lf.Sort + "))"
		e.heapGet(st, k, s)
		keys = append(keys, k)
		sorts = append(sorts, s)
		esorts = append(esorts, lf.Sort)
	}
	return
}

// append(s, t...) : SSA always passes a slice (or string) as second argument.
func (e *Enc) encAppend(fr *Frame, st *State, cc *ssa.CallCommon, args []*Val, rt types.Type, hint string) *Val {
	s, t := args[0], args[1]
	sl, ok := cc.Args[0].Type().Underlying().(*types.Slice)
	if !ok || len(s.L) != 4 {
		e.unsupportedf("append on %s", typeStr(cc.Args[0].Type()))
		return e.freshVal(st, hint, rt)
	}
	var tlen string
	var tbase, toff string
	isStr := false
	if _, ok := cc.Args[1].Type().Underlying().(*types.Basic); ok {
		isStr = true
		e.declFun("strlen", []string{"Str"}, "Int")
		tlen = "(strlen " + t.L[0].T + ")"
	} else if len(t.L) == 4 {
		tbase, toff, tlen = t.L[0].T, t.L[1].T, t.L[2].T
	} else {
		e.unsupportedf("append of malformed slice")
		return e.freshVal(st, hint, rt)
	}
	base, off, ln, cp := s.L[0].T, s.L[1].T, s.L[2].T, s.L[3].T
	nlen := e.define(hint+"!len", "Int", "(+ "+ln+" "+tlen+")")
	fits := e.nameBool(hint+"!fits", "(<= "+nlen+" "+cp+")")
	fresh := e.fresh(hint+"!nb", "Int")
	e.assert(eq(fresh, "(+ "+st.alloc+" 1)"))
	st.alloc = ite(fits, st.alloc, fresh)
	if len(st.alloc) > 40 {
		a := e.fresh("alloc", "Int")
		e.assert(eq(a, st.alloc))
		st.alloc = a
	}
	ncap := e.fresh(hint+"!cap", "Int")
	e.assert("(and (>= " + ncap + " " + nlen + ") " + implies(fits, eq(ncap, cp)) + ")")
	nbase := ite(fits, base, fresh)
	noff := ite(fits, off, "0")
	nb := e.fresh(hint+"!base", "Int")
	e.assert(eq(nb, nbase))
	no := e.fresh(hint+"!off", "Int")
	e.assert(eq(no, noff))
	keys, sorts, esorts := e.sliceHeaps(st, sl.Elem())
	for i, k := range keys {
		h := st.heap[k]
		if h == "" {
			h = e.heapGet(st, k, sorts[i])
		}
		// new contents of backing nb, by ABSOLUTE index q (single trigger (select na q), so that every read of the new
		// backing instantiates it): q in [no, no+ln): old s[q-no]; q in [no+ln, no+nlen): t[q-no-ln]; in place: every
		// other cell keeps its value; fresh backing: other cells arbitrary
		na := e.fresh(k+"!app", "(Array Int "+esorts[i]+")")
		rel := "(- q " + no + ")"
		var src string
		if isStr {
			f := e.declFun("strat", []string{"Str", "Int"}, "Int")
			src = "(" + f + " " + t.L[0].T + " (- " + rel + " " + ln + "))"
		} else {
			src = "(select (select " + h + " " + tbase + ") (+ " + toff + " (- " + rel + " " + ln + ")))"
		}
		oldAt := "(select (select " + h + " " + base + ") (+ " + off + " " + rel + "))"
		inOld := "(and (<= " + no + " q) (< q (+ " + no + " " + ln + ")))"
		inNew := "(and (<= (+ " + no + " " + ln + ") q) (< q (+ " + no + " " + nlen + ")))"
		outside := "(or (< q " + no + ") (>= q (+ " + no + " " + nlen + ")))"
		// the content axiom of the new backing is only needed (and only instantiated) on paths that execute this append:
		// on every other path (e.g. the exit of the loop whose body appends) it is vacuous
		e.assert(implies(st.reach, "(forall ((q Int)) (! (and (=> "+inOld+" (= (select "+na+" q) "+oldAt+")) (=> "+inNew+" (= (select "+na+" q) "+src+")) (=> (and "+fits+" "+outside+") (= (select "+na+" q) (select (select "+h+" "+base+") q)))) :pattern ((select "+na+" q))))"))
		e.writeTarget = nb
		if !isStr {
			// appending exactly one element (the common case): the new cell directly
			e.assert("(=> (= " + tlen + " 1) (= (select " + na + " (+ " + no + " " + ln + ")) (select (select " + h + " " + tbase + ") " + toff + ")))")
		}
		e.withRef(base, func() { e.heapSet(st, k, sorts[i], "(store "+h+" "+nb+" "+na+")") }) // base itself, or a new backing
		e.writeTarget = ""
		if b, ok := sl.Elem().Underlying().(*types.Basic); ok && b.Kind() == types.Uint8 && !isStr && len(keys) == 1 {
			e.bcatFact(e.bseqTerm(na, no, nlen), e.bseqTerm("(select "+h+" "+base+")", off, ln), e.bseqTerm("(select "+h+" "+tbase+")", toff, tlen))
		}
	}
	return &Val{T: rt, L: []Sc{{nb, "Int"}, {no, "Int"}, {nlen, "Int"}, {ncap, "Int"}}}
}

func (e *Enc) encCopy(fr *Frame, st *State, cc *ssa.CallCommon, args []*Val, rt types.Type, hint string) *Val {
	d, s := args[0], args[1]
	sl, ok := cc.Args[0].Type().Underlying().(*types.Slice)
	if !ok || len(d.L) != 4 {
		e.unsupportedf("copy on %s", typeStr(cc.Args[0].Type()))
		return e.freshVal(st, hint, rt)
	}
	var slen string
	isStr := false
	if _, ok := cc.Args[1].Type().Underlying().(*types.Basic); ok {
		isStr = true
		e.declFun("strlen", []string{"Str"}, "Int")
		slen = "(strlen " + s.L[0].T + ")"
	} else {
		slen = s.L[2].T
	}
	n := e.define(hint+"!n", "Int", ite("(<= "+d.L[2].T+" "+slen+")", d.L[2].T, slen))
	keys, sorts, esorts := e.sliceHeaps(st, sl.Elem())
	for i, k := range keys {
		h := e.heapGet(st, k, sorts[i])
		na := e.fresh(k+"!cpy", "(Array Int "+esorts[i]+")")
		var src string
		if isStr {
			f := e.declFun("strat", []string{"Str", "Int"}, "Int")
			src = "(" + f + " " + s.L[0].T + " (- j " + d.L[1].T + "))"
		} else {
			src = "(select (select " + h + " " + s.L[0].T + ") (+ " + s.L[1].T + " (- j " + d.L[1].T + ")))"
		}
		e.assert("(forall ((j Int)) (! (= (select " + na + " j) (ite (and (<= " + d.L[1].T + " j) (< j (+ " + d.L[1].T + " " + n + "))) " + src + " (select (select " + h + " " + d.L[0].T + ") j))) :pattern ((select " + na + " j))))")
		e.heapSet(st, k, sorts[i], "(store "+h+" "+d.L[0].T+" "+na+")")
	}
	return &Val{T: rt, L: []Sc{{n, "Int"}}}
}

// pickAlt: among the alternative assumed contracts of one method (Contract.Alts) choose the one that accepts the
// statically known dynamic type of an interface-typed argument (`requires typeof(p) == type(T)`); without such
// knowledge, or when no alternative accepts it, the first contract is used (its requires then fail at the call site).
func (e *Enc) pickAlt(c *Contract, args []*Val) *Contract {
	if len(c.Alts) == 0 {
		return c
	}
	for _, cand := range append([]*Contract{c}, c.Alts...) {
		vars := e.bindParams(cand, args, cand.Sig)
		for _, g := range typeGuards(cand) {
			v, ok := vars[g[0].(string)]
			if !ok || len(v.L) != 2 {
				continue
			}
			n, isConst := isConstTerm(v.L[0].T)
			if !isConst {
				continue
			}
			gt, err := e.resolveGoType(g[1].(*TypeExpr), cand.PkgPath, cand.Imports)
			if err != nil {
				continue // a type of a package that is not part of this load
			}
			if int64(e.TI.tagOf(gt)) == n.Int64() {
				return cand
			}
		}
	}
	return c
}

// havocEffects: `modifies effects(f)` at a call site — the callee may do whatever calling the function value f does, any
// number of times. When f is a closure known at encode time its body is encoded once in a dry run to learn which heap
// keys it writes (transitively through the contracts of its callees); exactly those are havocked. Otherwise everything is.
func (e *Enc) havocEffects(fr *Frame, st *State, menv *Env, arg Expr, c *Contract) {
	v, err := menv.eval(arg)
	if err != nil || v == nil || v.Clos == nil || v.Clos.Fn == nil || v.Clos.Fn.Blocks == nil {
		e.havocAll(st)
		return
	}
	fn := v.Clos.Fn
	invs, siteKey := fr.siteInvs, fr.siteKey
	// call-site invariant: holds before the call
	for i, inv := range invs {
		if e.dry > 0 {
			break
		}
		g, err := e.envFor(fr, st).evalBool(inv.E)
		if err != nil {
			e.unsupportedf("%s invariant %s: %v", siteKey, inv.Src, err)
			continue
		}
		e.addObl(&Obligation{Name: siteKey + ":invariant.establish:" + clauseName(inv, i), Kind: "invariant-establish", Label: inv.Label, Clause: "at " + siteKey + ": " + inv.Src, Reach: st.reach, Goal: g})
	}
	d := e.beginDry(fr)
	{
		hst := st.clone()
		var args []*Val
		for _, p := range fn.Params {
			args = append(args, e.freshVal(hst, "fx!"+p.Name(), p.Type()))
		}
		var rt types.Type
		switch fn.Signature.Results().Len() {
		case 0:
		case 1:
			rt = fn.Signature.Results().At(0).Type()
		default:
			rt = fn.Signature.Results()
		}
		e.inline(fr, hst, fn, v.Clos.Bind, args, rt, "fx", fn.Pos())
	}
	written := e.endDry(fr, d)
	nonLocal := e.dryNonLocal
	if written["*"] {
		e.havocAll(st)
		return
	}
	for _, k := range sortedKeys(written) {
		if strings.HasPrefix(k, "RV|") {
			continue
		}
		if _, ok := e.heapSort[k]; ok {
			before := e.heapGet(st, k, e.heapSort[k])
			e.heapHavoc(st, k)
			// every write of the function value to this component goes through an object allocated by the current
			// function (captured locals): objects that existed when the current function started are untouched
			if !nonLocal[k] && refIndexedKey(k) {
				e.assert("(forall ((r Int)) (! (=> (<= r alloc@0) (= (select " + st.heap[k] + " r) (select " + before + " r))) :pattern ((select " + st.heap[k] + " r))))")
			} else if nonLocal[k] {
				e.noteNonLocal(k)
			}
		}
	}
	if len(invs) == 0 {
		return
	}
	// the havocked state is an arbitrary state reachable by running the function value some number of times: assume the
	// invariant there, show that one more run preserves it (this run is a real encoding: the obligations inside the
	// function value's body are generated under the invariant), then continue from the havocked state
	for _, inv := range invs {
		if g, err := e.envFor(fr, st).evalBool(inv.E); err == nil {
			e.assume(st, g)
		}
	}
	if e.dry > 0 {
		return
	}
	run := st.clone()
	var args []*Val
	for _, p := range fn.Params {
		args = append(args, e.freshVal(run, "fxi!"+p.Name(), p.Type()))
	}
	var rt types.Type
	switch fn.Signature.Results().Len() {
	case 0:
	case 1:
		rt = fn.Signature.Results().At(0).Type()
	default:
		rt = fn.Signature.Results()
	}
	e.inline(fr, run, fn, v.Clos.Bind, args, rt, "fxi", fn.Pos())
	if run.reach != "false" {
		for i, inv := range invs {
			g, err := e.envFor(fr, run).evalBool(inv.E)
			if err != nil {
				e.unsupportedf("%s invariant %s: %v", siteKey, inv.Src, err)
				continue
			}
			e.addObl(&Obligation{Name: siteKey + ":invariant.preserve:" + clauseName(inv, i), Kind: "invariant-preserve", Label: inv.Label, Clause: "at " + siteKey + " (one run of the function value): " + inv.Src, Reach: run.reach, Goal: g})
		}
	}
}
