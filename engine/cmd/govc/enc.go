package main

import (
	"fmt"
	"go/constant"
	"go/token"
	"go/types"
	"sort"
	"strings"

	"golang.org/x/tools/go/ssa"
)

// Obligation is one verification condition: valid iff  defs[:N] ∧ Reach ∧ ¬Goal  is unsat.
type Obligation struct {
	Name   string
	Func   string
	Kind   string // ensures, requires, invariant-establish, invariant-preserve, frame, panic, safety, cover
	Label  string
	Clause string
	N      int // length of the definition prefix
	Reach  string
	Goal   string
	Cover  bool // cover query: expected sat (vacuity guard)
	Props  map[string]bool
	Pos    string
	// results
	Result  string // unsat, sat, unknown, timeout, error
	Solver  string
	Seconds float64
	Bytes   int
	Model   string
	Excused string   // known-finding id when proved under ¬excuse
	Extra   []string // definitions appended after the prefix (excuse / observable terms)
	Raw     string
}

type PanicSite struct {
	Name  string
	Reach string // condition under which the panic happens
	N     int
	Desc  string
	Pos   string
	Kind  string // explicit, nil, index, div, assert, call
}

type State struct {
	heap   map[string]string // heap key -> current term
	alloc  string
	reach  string
	defers []*deferRec
	// A key that is absent from heap has the value it had at function entry (key@0) — unless everything was havocked
	// on the way to this state (unknown callee, `modifies everything`): epoch > 0 then names the generation of unknown
	// values such a key holds. A state merged from states with different histories resolves absent keys lazily from
	// its predecessors (mergeOf / mergeConds).
	epoch      int
	mergeOf    []*State
	mergeConds []string
}

type dryCached struct {
	st  *State
	key string
}

type deferRec struct {
	flag string // Bool term: registered
	call *ssa.Defer
	fr   *Frame
	fn   *Val
	args []*Val
}

func (s *State) clone() *State {
	n := &State{heap: make(map[string]string, len(s.heap)), alloc: s.alloc, reach: s.reach, epoch: s.epoch, mergeOf: s.mergeOf, mergeConds: s.mergeConds}
	for k, v := range s.heap {
		n.heap[k] = v
	}
	n.defers = append([]*deferRec(nil), s.defers...)
	return n
}

type Frame struct {
	fn           *ssa.Function
	vals         map[ssa.Value]*Val
	prefix       string
	depth        int
	parent       *Frame
	entry        *State // for old()
	contract     *Contract
	args         []*Val
	exits        []exitRec
	stack        []*ssa.Function
	siteN        map[string]int
	ranks        map[string]map[token.Pos]int
	curCallClass string
	siteInvs     []*Clause // call-site invariants of the call being encoded (see Contract.CallInvariants)
	siteKey      string
	// loop analysis
	order    []*ssa.BasicBlock
	backEdge map[[2]int]bool
	loops    map[int]*loopInfo // header block index -> info
	blockOut map[int]*State    // state at end of block
	results  *Val
	top      bool
	env      *Env // cached param env
}

type exitRec struct {
	st  *State
	res *Val
}

type loopInfo struct {
	header  *ssa.BasicBlock
	body    map[int]bool
	ordinal int
	pos     token.Pos
	// loop frame support: state at the header of an arbitrary iteration and the heap keys the body writes
	headerState *State
	written     map[string]bool
}

type Enc struct {
	P           *Program
	DB          *SpecDB
	TI          *TypeInfo
	out         []string
	declared    map[string]string // symbol -> sort/signature
	nfresh      int
	obls        []*Obligation
	panics      []*PanicSite
	heapSort    map[string]string // heap key -> sort
	strLits     map[string]string
	unsupported []string // reasons that put the function out of reach
	notes       []string
	// evidence bookkeeping
	usedContracts   map[string]int
	inlined         map[string]int
	unspecCalls     map[string]int
	assumedUsed     map[string]int
	top             *Frame
	writeLog        map[string]bool // keys written (for loops / frame)
	globalRefs      map[string]int
	dry             int
	funcName        string
	maxInline       int
	preambleGhosts  bool
	curFrameForSite *Frame
	dynImpl         map[string]bool
	qbound          []string // names of the quantifier variables whose body is being evaluated
	dryCache        []dryCached
	applyCells      map[string]*Val // captured-variable cells while a closure's contract is applied at a call site
	recGhost        map[string]bool
	trustedClauses  []string        // "trusted ensures" clauses of the function under verification (not checked)
	hiddenIdx       map[string][]string // heap key -> index terms havocked silently at call sites (hidden modifies of callees)
	closedFacts     map[string]bool // universally closed side facts already emitted (bound names normalised)
	axiomLines      []axiomLine
	bseqSeen        map[string]bool
	writeRef        string   // reference through which the heap write in progress goes ("" = unknown)
	writeTarget     string   // the object actually written when it differs from writeRef (append: old backing or a new one)
	freshCtx        []string // names of the enclosing loops that carry `fresh_writes` (innermost last)
	implCache       map[string][]types.Type
	dryNonLocal     map[string]bool // result of the last loop dry run
	writeNonLocal   map[string]bool // heap keys written through a reference that was not allocated by this function
	qscope          [][2]string     // quantified variables of the specification expression being evaluated: (symbol, sort)
}

func newEnc(P *Program, db *SpecDB, ti *TypeInfo) *Enc {
	return &Enc{P: P, DB: db, TI: ti, declared: map[string]string{}, heapSort: map[string]string{}, strLits: map[string]string{},
		usedContracts: map[string]int{}, inlined: map[string]int{}, unspecCalls: map[string]int{}, assumedUsed: map[string]int{},
		writeLog: map[string]bool{}, globalRefs: map[string]int{}, maxInline: 6, dynImpl: map[string]bool{}, recGhost: map[string]bool{}}
}

// ---------- emission ----------

func (e *Enc) emit(s string) { e.out = append(e.out, s) }

func (e *Enc) assert(t string) {
	if t == "true" {
		return
	}
	// facts produced while a specification quantifier is being evaluated (typing facts of loaded values, instance
	// facts of byte windows, ensures of pure functions) may mention its bound variables: they hold for every value of
	// them, so they are asserted universally
	if bs := e.boundIn(t); len(bs) > 0 {
		e.emit("(assert (forall (" + strings.Join(bs, " ") + ") " + t + "))")
		return
	}
	e.emit("(assert " + t + ")")
}

// boundIn: binders (as "(name sort)") of the quantified variables in scope that occur in t.
func (e *Enc) boundIn(t string) []string {
	var out []string
	for _, b := range e.qscope {
		if strings.Contains(t, b[0]) {
			out = append(out, "("+b[0]+" "+b[1]+")")
		}
	}
	return out
}

// assertTyping: side facts (typing of loaded values). Produced while a quantifier body is being evaluated they may mention
// the bound variable; the quantifier evaluation (eval.go, EQuant) closes such facts universally over its binders, so
// they are emitted like any other fact.
func (e *Enc) assertTyping(t string) {
	e.assert(t)
}

// assertRange: integer-range typing facts. Under a quantifier they are dropped (they only ever help a proof, are rarely
// needed there, and one copy per bound variable and leaf swamps the solvers).
func (e *Enc) assertRange(t string) {
	for _, q := range e.qbound {
		if strings.Contains(t, q) {
			return
		}
	}
	e.assert(t)
}

// assume under the current reach condition of st
func (e *Enc) assume(st *State, t string) {
	e.assert(implies(st.reach, t))
}

func (e *Enc) declSort(s string) {
	if s == "Int" || s == "Bool" || strings.HasPrefix(s, "(Array ") {
		if strings.HasPrefix(s, "(Array ") {
			k, v := splitArraySort(s)
			e.declSort(k)
			e.declSort(v)
		}
		return
	}
	if _, ok := e.declared["sort:"+s]; ok {
		return
	}
	e.declared["sort:"+s] = "sort"
	e.emit("(declare-sort " + s + " 0)")
}

func (e *Enc) declConst(name, sort string) string {
	if _, ok := e.declared[name]; ok {
		return name
	}
	e.declSort(sort)
	e.declared[name] = sort
	e.emit("(declare-const " + name + " " + sort + ")")
	return name
}

func (e *Enc) declFun(name string, args []string, ret string) string {
	if _, ok := e.declared[name]; ok {
		return name
	}
	for _, a := range args {
		e.declSort(a)
	}
	e.declSort(ret)
	e.declared[name] = "fun"
	e.emit("(declare-fun " + name + " (" + strings.Join(args, " ") + ") " + ret + ")")
	if name == "strlen" {
		// lengths are non-negative and only the empty string (the zero value of the string type) has length 0
		z := e.zero("Str")
		e.emit("(assert (forall ((s Str)) (! (and (>= (strlen s) 0) (=> (= (strlen s) 0) (= s " + z + "))) :pattern ((strlen s)))))")
		e.emit("(assert (= (strlen " + z + ") 0))")
	}
	return name
}

func (e *Enc) fresh(hint, sort string) string {
	e.nfresh++
	return e.declConst(sym(fmt.Sprintf("%s@%d", hint, e.nfresh)), sort)
}

// define introduces a named constant equal to term (keeps formulas small).
func (e *Enc) define(hint, sort, term string) string {
	if len(term) < 40 || len(e.boundIn(term)) > 0 {
		return term
	}
	n := e.fresh(hint, sort)
	e.assert(eq(n, term))
	return n
}

func (e *Enc) zero(sort string) string {
	z := zeroOfSort(sort)
	if strings.HasPrefix(z, "zero!") {
		e.declConst(z, sort)
	}
	return z
}

func (e *Enc) unsupportedf(f string, a ...interface{}) {
	e.unsupported = append(e.unsupported, fmt.Sprintf(f, a...))
}

// ---------- heap ----------

func (e *Enc) heapGet(st *State, key, sort string) string {
	if t, ok := st.heap[key]; ok {
		return t
	}
	if s, ok := e.heapSort[key]; ok && s != sort {
		e.unsupportedf("heap key %s used at sorts %s and %s", key, s, sort)
	}
	e.heapSort[key] = sort
	if st.mergeOf != nil {
		// first use of this key after a join of different histories
		var terms []string
		same := true
		for _, p := range st.mergeOf {
			t := e.heapGet(p, key, sort)
			terms = append(terms, t)
			if t != terms[0] {
				same = false
			}
		}
		r := terms[0]
		if !same {
			r = e.fresh(key, sort)
			for i, t := range terms {
				e.assert(implies(st.mergeConds[i], eq(r, t)))
			}
		}
		st.heap[key] = r
		if e.dry > 0 {
			// the names were declared inside a dry run and are rolled back with it
			e.dryCache = append(e.dryCache, dryCached{st, key})
		}
		return r
	}
	if st.epoch > 0 {
		// first use of this key after everything was havocked: an unknown value, not the entry value
		return e.declConst(sym(fmt.Sprintf("%s@hv%d", key, st.epoch)), sort)
	}
	n := e.declConst(sym(key+"@0"), sort)
	return n
}

// havocUnknown: every heap key that was never touched so far holds an unknown value from now on.
func (e *Enc) havocUnknown(st *State) {
	e.nfresh++
	st.epoch = e.nfresh
	st.mergeOf, st.mergeConds = nil, nil
	e.writeLog["*"] = true
}

// localRef: the term denotes an object allocated by the function being encoded (allocRef names them ref!...).
func localRef(t string) bool { return strings.HasPrefix(t, "|ref!") }

// noteWrite records whether the write in progress may touch an object that existed before the function started.
func (e *Enc) noteWrite(st *State, key string) {
	if !localRef(e.writeRef) {
		if e.writeNonLocal == nil {
			e.writeNonLocal = map[string]bool{}
		}
		e.writeNonLocal[key] = true
		// inside a loop declared `fresh_writes`: the written object must have been allocated during the call
		if n := len(e.freshCtx); n > 0 && e.dry == 0 && refIndexedKey(key) && st != nil {
			target := e.writeTarget
			if target == "" {
				target = e.writeRef
			}
			goal := "false" // a write through an unknown reference cannot be shown fresh
			if target != "" {
				goal = "(> " + target + " alloc@0)"
			}
			e.addObl(&Obligation{Name: e.freshCtx[n-1] + ".fresh_write:" + key, Kind: "fresh-write", Label: "",
				Clause: "fresh_writes — the loop body writes " + key + " only in objects allocated during the call", Reach: st.reach, Goal: goal})
		}
	}
}

// withRef runs f while heap writes are attributed to the object ref.
func (e *Enc) withRef(ref string, f func()) {
	saved := e.writeRef
	e.writeRef = ref
	f()
	e.writeRef = saved
}

func (e *Enc) heapSet(st *State, key, sort, term string) {
	e.heapSort[key] = sort
	e.writeLog[key] = true
	e.noteWrite(st, key)
	if len(term) > 60 {
		n := e.fresh(key, sort)
		e.assert(eq(n, term))
		term = n
	}
	st.heap[key] = term
}

func (e *Enc) heapHavoc(st *State, key string) {
	sort, ok := e.heapSort[key]
	if !ok {
		return
	}
	e.writeLog[key] = true
	e.noteWrite(st, key)
	st.heap[key] = e.fresh(key, sort)
}

func locKeySort(l *Loc, leaf Leaf) (string, string) {
	key := string(l.Kind) + "|" + l.Key + "|" + l.Path + leaf.Path
	switch l.Kind {
	case 'S':
		return key, "(Array Int (Array Int " + leaf.Sort + "))"
	}
	return key, "(Array Int " + leaf.Sort + ")"
}

func (e *Enc) loadLoc(st *State, l *Loc) *Val {
	leaves := e.TI.shape(l.T)
	v := &Val{T: l.T}
	for _, lf := range leaves {
		key, sort := locKeySort(l, lf)
		arr := e.heapGet(st, key, sort)
		var t string
		if l.Kind == 'S' {
			t = "(select (select " + arr + " " + l.Ref + ") " + l.Idx + ")"
		} else {
			t = "(select " + arr + " " + l.Ref + ")"
		}
		v.L = append(v.L, Sc{t, lf.Sort})
		e.typeAssume(st, lf, t)
		// values already in the entry heap are references that existed at entry
		if lf.Sort == "Int" && isRefLike(lf.T) {
			a0 := e.declConst(sym(key+"@0"), sort)
			// (only for containers that existed at entry: the fields of an object a callee allocates are described by
			// the callee's ensures over the same, unhavocked, array)
			if l.Kind == 'S' {
				e.assertTyping("(=> (<= " + l.Ref + " alloc@0) (<= (select (select " + a0 + " " + l.Ref + ") " + l.Idx + ") alloc@0))")
			} else {
				e.assertTyping("(=> (<= " + l.Ref + " alloc@0) (<= (select " + a0 + " " + l.Ref + ") alloc@0))")
			}
		}
	}
	// slice headers read from memory are well-formed: len <= cap
	for i := 0; i+1 < len(leaves); i++ {
		if _, ok := leaves[i].T.Underlying().(*types.Slice); ok && strings.HasSuffix(leaves[i].Path, ".len") && strings.HasSuffix(leaves[i+1].Path, ".cap") {
			e.assertRange("(<= " + v.L[i].T + " " + v.L[i+1].T + ")")
		}
	}
	// slice values held in memory are well-formed slices (type invariant of every Go slice value): 0 <= off, 0 <= len <= cap
	for i := 0; i+3 < len(leaves); i++ {
		if _, isSlice := leaves[i].T.Underlying().(*types.Slice); !isSlice || !strings.HasSuffix(leaves[i].Path, ".base") && leaves[i].Path != "base" {
			continue
		}
		pre := strings.TrimSuffix(leaves[i].Path, "base")
		if leaves[i+1].Path == pre+"off" && leaves[i+2].Path == pre+"len" && leaves[i+3].Path == pre+"cap" {
			f := "(and (<= 0 " + v.L[i+1].T + ") (<= 0 " + v.L[i+2].T + ") (<= " + v.L[i+2].T + " " + v.L[i+3].T + ") (<= " + v.L[i+3].T + " 9223372036854775807))"
			if !strings.Contains(f, "|q!") {
				e.assertTyping(f)
			}
		}
	}
	return v
}

// typeAssume adds the typing facts of a value read from memory or produced by an unknown source.
func (e *Enc) typeAssume(st *State, lf Leaf, t string) {
	if lf.Sort != "Int" {
		return
	}
	switch u := lf.T.Underlying().(type) {
	case *types.Basic:
		if lo, hi, ok := intRange(u); ok {
			e.assertRange("(and (<= " + smtInt(lo) + " " + t + ") (<= " + t + " " + smtInt(hi) + "))")
		}
	case *types.Pointer, *types.Map:
		e.assertTyping("(<= " + t + " " + st.alloc + ")")
	case *types.Slice:
		switch {
		case strings.HasSuffix(lf.Path, ".base"):
			e.assertTyping("(<= " + t + " " + st.alloc + ")")
		case strings.HasSuffix(lf.Path, ".len"), strings.HasSuffix(lf.Path, ".cap"), strings.HasSuffix(lf.Path, ".off"):
			// lengths, capacities and offsets of slice values are non-negative ints
			e.assertRange("(and (<= 0 " + t + ") (<= " + t + " 9223372036854775807))")
		}
		// every slice value is well-formed wherever it is stored: 0 <= off, 0 <= len <= MaxInt64 (len() is an int)
		if i := strings.LastIndex(lf.Path, "."); i >= 0 {
			switch lf.Path[i:] {
			case ".len":
				e.assertTyping("(and (<= 0 " + t + ") (<= " + t + " 9223372036854775807))")
			case ".off":
				e.assertTyping("(<= 0 " + t + ")")
			case ".cap":
				e.assertTyping("(<= " + t + " 9223372036854775807)")
			}
		}
	}
}

func (e *Enc) storeLoc(st *State, l *Loc, v *Val) {
	leaves := e.TI.shape(l.T)
	if len(leaves) == 1 && len(v.L) == 0 && v.Clos != nil && len(v.Clos.Bind) == 0 && len(v.Clos.Fn.FreeVars) == 0 {
		// a function value without captured variables (a package-level function or method expression) is a constant:
		// it is stored as a non-nil reference that stands for that function. Reading it back gives a plain function value
		// (a call through it is a call of an unknown function value).
		c := e.declConst(sym("funcref!"+v.Clos.Fn.String()), "Int")
		e.assert("(not (= " + c + " 0))")
		v = &Val{T: v.T, L: []Sc{{c, "Int"}}}
	}
	if len(leaves) != len(v.L) {
		if v.Loc != nil || v.Clos != nil {
			e.unsupportedf("store of an interior pointer or closure into memory (%s)", typeStr(l.T))
			// store opaque fresh value to stay sound
			for _, lf := range leaves {
				key, sort := locKeySort(l, lf)
				e.heapGet(st, key, sort)
				e.heapHavoc(st, key)
			}
			return
		}
		e.unsupportedf("store shape mismatch %s: %d leaves vs %d", typeStr(l.T), len(leaves), len(v.L))
		return
	}
	for i, lf := range leaves {
		key, sort := locKeySort(l, lf)
		arr := e.heapGet(st, key, sort)
		var t string
		if l.Kind == 'S' {
			t = "(store " + arr + " " + l.Ref + " (store (select " + arr + " " + l.Ref + ") " + l.Idx + " " + v.L[i].T + "))"
		} else {
			t = "(store " + arr + " " + l.Ref + " " + v.L[i].T + ")"
		}
		e.withRef(l.Ref, func() { e.heapSet(st, key, sort, t) })
	}
}

// ptrLoc turns a pointer value into a location of its pointee.
func (e *Enc) ptrLoc(p *Val) *Loc {
	if p.Loc != nil {
		return p.Loc
	}
	pt, ok := p.T.Underlying().(*types.Pointer)
	if !ok || len(p.L) != 1 {
		e.unsupportedf("dereference of non-pointer %v", p.T)
		return &Loc{Kind: 'P', Key: "?", Ref: "0", T: types.Typ[types.Int]}
	}
	el := pt.Elem()
	return e.refLoc(p.L[0].T, el)
}

func (e *Enc) refLoc(ref string, el types.Type) *Loc {
	if _, opq := e.TI.opaqueSort(el); !opq {
		switch u := el.Underlying().(type) {
		case *types.Struct:
			return &Loc{Kind: 'F', Key: typeStr(el), Ref: ref, T: el}
		case *types.Array:
			_ = u
			// pointer to array: whole-array location is the backing itself; handled by IndexAddr/Slice
			return &Loc{Kind: 'A', Key: typeStr(u.Elem()), Ref: ref, T: el}
		}
	}
	// plain cells of named basic types share the heap of their underlying type, so that a pointer conversion such as
	// (*hexutil.Uint64)(&x) with x uint64 denotes the same cell
	if _, opq := e.TI.opaqueSort(el); !opq {
		if b, ok := el.Underlying().(*types.Basic); ok {
			return &Loc{Kind: 'P', Key: typeStr(b), Ref: ref, T: el}
		}
	}
	return &Loc{Kind: 'P', Key: typeStr(el), Ref: ref, T: el}
}

func (e *Enc) allocRef(st *State, hint string) string {
	r := e.fresh("ref!"+hint, "Int")
	e.assert(eq(r, "(+ "+st.alloc+" 1)"))
	st.alloc = r
	return r
}

// bumpAlloc makes alloc an unknown value ≥ the current one (callee may allocate).
func (e *Enc) bumpAlloc(st *State) {
	a := e.fresh("alloc", "Int")
	e.assert("(<= " + st.alloc + " " + a + ")")
	st.alloc = a
}

// ---------- values ----------

func (e *Enc) zeroVal(t types.Type) *Val {
	v := &Val{T: t}
	for _, lf := range e.TI.shape(t) {
		v.L = append(v.L, Sc{e.zero(lf.Sort), lf.Sort})
	}
	return v
}

func (e *Enc) freshVal(st *State, hint string, t types.Type) *Val {
	v := &Val{T: t}
	for _, lf := range e.TI.shape(t) {
		n := e.fresh(hint+lf.Path, lf.Sort)
		v.L = append(v.L, Sc{n, lf.Sort})
		e.typeAssume(st, lf, n)
		if _, isSlice := lf.T.Underlying().(*types.Slice); isSlice {
			switch lf.Path[strings.LastIndex(lf.Path, "."):] {
			case ".len", ".off":
				e.assert("(<= 0 " + n + ")")
				if strings.HasSuffix(lf.Path, ".len") {
					// len() is an int
					e.assert("(<= " + n + " 9223372036854775807)")
				}
			case ".cap":
				e.assert("(<= " + n + " 9223372036854775807)")
			}
		}
	}
	e.sliceWellFormed(v)
	e.nestedSlicesWellFormed(v)
	return v
}

// nestedSlicesWellFormed: slice-typed components of a tuple / struct value (four consecutive leaves base, off, len, cap
// of one slice type) satisfy len <= cap and "nil base => empty", like top-level slice values.
func (e *Enc) nestedSlicesWellFormed(v *Val) {
	if v.T == nil {
		return
	}
	if _, ok := v.T.Underlying().(*types.Slice); ok {
		return // handled by sliceWellFormed
	}
	sh := e.TI.shape(v.T)
	if len(sh) != len(v.L) {
		return
	}
	for i := 0; i+3 < len(sh); i++ {
		if _, isSlice := sh[i].T.Underlying().(*types.Slice); !isSlice {
			continue
		}
		p := sh[i].Path
		if !strings.HasSuffix(p, ".base") {
			continue
		}
		pre := strings.TrimSuffix(p, ".base")
		if sh[i+1].Path == pre+".off" && sh[i+2].Path == pre+".len" && sh[i+3].Path == pre+".cap" {
			e.assert("(and (<= " + v.L[i+2].T + " " + v.L[i+3].T + ") (<= " + v.L[i+3].T + " 9223372036854775807))")
			e.assert("(=> (= " + v.L[i].T + " 0) (= " + v.L[i+2].T + " 0))")
		}
	}
}

// sliceWellFormed asserts 0<=len<=cap for every slice-shaped group of leaves in v (when v itself is a slice).
func (e *Enc) sliceWellFormed(v *Val) {
	if v.T == nil {
		return
	}
	if _, ok := v.T.Underlying().(*types.Slice); ok && len(v.L) == 4 {
		e.assert("(and (<= 0 " + v.L[1].T + ") (<= 0 " + v.L[2].T + ") (<= " + v.L[2].T + " " + v.L[3].T + ") (<= " + v.L[3].T + " 9223372036854775807))")
		e.assert("(=> (= " + v.L[0].T + " 0) (= " + v.L[2].T + " 0))")
	}
}

func (e *Enc) strLit(s string) string {
	if n, ok := e.strLits[s]; ok {
		return n
	}
	if s == "" {
		// the empty string is the zero value of the string type
		z := e.zero("Str")
		e.declFun("strlen", []string{"Str"}, "Int")
		e.assert("(= (strlen " + z + ") 0)")
		for _, k := range sortedKeys(e.strLits) {
			e.assert("(not (= " + z + " " + e.strLits[k] + "))")
		}
		e.strLits[s] = z
		return z
	}
	n := sym(fmt.Sprintf("str!%d!%s", len(e.strLits), truncate(s, 24)))
	e.declConst(n, "Str")
	e.declFun("strlen", []string{"Str"}, "Int")
	e.assert(fmt.Sprintf("(= (strlen %s) %d)", n, len(s)))
	// distinct from earlier literals
	for _, k := range sortedKeys(e.strLits) {
		e.assert("(not (= " + n + " " + e.strLits[k] + "))")
	}
	e.strLits[s] = n
	return n
}

func truncate(s string, n int) string {
	r := []rune(s)
	var b strings.Builder
	for i, c := range r {
		if i >= n {
			break
		}
		if c < 32 || c > 126 || c == '|' || c == '\\' {
			c = '_'
		}
		b.WriteRune(c)
	}
	return b.String()
}

func (e *Enc) constVal(c *ssa.Const) *Val {
	t := c.Type()
	if c.Value == nil {
		return e.zeroVal(t)
	}
	switch u := t.Underlying().(type) {
	case *types.Basic:
		switch {
		case u.Info()&types.IsBoolean != 0:
			if constant.BoolVal(c.Value) {
				return &Val{T: t, L: []Sc{{"true", "Bool"}}}
			}
			return &Val{T: t, L: []Sc{{"false", "Bool"}}}
		case u.Info()&types.IsInteger != 0:
			iv := constant.ToInt(c.Value)
			s := iv.ExactString()
			if strings.HasPrefix(s, "-") {
				s = "(- " + s[1:] + ")"
			}
			return &Val{T: t, L: []Sc{{s, "Int"}}}
		case u.Info()&types.IsString != 0:
			return &Val{T: t, L: []Sc{{e.strLit(constant.StringVal(c.Value)), "Str"}}}
		case u.Info()&types.IsFloat != 0:
			n := sym("flt!" + c.Value.ExactString())
			e.declConst(n, "Flt")
			return &Val{T: t, L: []Sc{{n, "Flt"}}}
		}
	}
	e.unsupportedf("constant of type %s", typeStr(t))
	return e.zeroVal(t)
}

func (e *Enc) globalRef(g *ssa.Global) string {
	k := g.String()
	if _, ok := e.globalRefs[k]; !ok {
		// deterministic id from the name: use a declared distinct negative constant per global
		e.globalRefs[k] = len(e.globalRefs) + 1
	}
	n := sym("gref!" + k)
	if _, ok := e.declared[n]; !ok {
		e.declConst(n, "Int")
		e.assert("(< " + n + " 0)")
		for _, other := range sortedKeys(e.globalRefs) {
			if other != k {
				on := sym("gref!" + other)
				if _, ok := e.declared[on]; ok {
					e.assert("(not (= " + n + " " + on + "))")
				}
			}
		}
	}
	return n
}

func (e *Enc) val(fr *Frame, v ssa.Value) *Val {
	if x, ok := fr.vals[v]; ok {
		return x
	}
	switch v := v.(type) {
	case *ssa.Const:
		return e.constVal(v)
	case *ssa.Global:
		return &Val{T: v.Type(), L: []Sc{{e.globalRef(v), "Int"}}}
	case *ssa.Function:
		return &Val{T: v.Type(), Clos: &Clos{Fn: v}}
	case *ssa.Builtin:
		return &Val{T: v.Type()}
	case *ssa.FreeVar:
		e.unsupportedf("free variable %s outside closure binding", v.Name())
	}
	// value used before definition in our block order (should not happen)
	e.unsupportedf("value %s (%T) of %s has no encoding", v.Name(), v, fr.fn)
	x := e.freshVal(&State{alloc: "0"}, fr.prefix+v.Name(), v.Type())
	fr.vals[v] = x
	return x
}

// ---------- control flow ----------

func (e *Enc) analyze(fr *Frame) {
	fn := fr.fn
	fr.backEdge = map[[2]int]bool{}
	fr.loops = map[int]*loopInfo{}
	// back edges by dominance
	for _, b := range fn.Blocks {
		for _, s := range b.Succs {
			if s.Dominates(b) {
				fr.backEdge[[2]int{b.Index, s.Index}] = true
				li := fr.loops[s.Index]
				if li == nil {
					li = &loopInfo{header: s, body: map[int]bool{s.Index: true}}
					fr.loops[s.Index] = li
				}
				// natural loop: nodes reaching b without passing s
				var stack []*ssa.BasicBlock
				if !li.body[b.Index] {
					li.body[b.Index] = true
					stack = append(stack, b)
				}
				for len(stack) > 0 {
					x := stack[len(stack)-1]
					stack = stack[:len(stack)-1]
					for _, p := range x.Preds {
						if !li.body[p.Index] {
							li.body[p.Index] = true
							stack = append(stack, p)
						}
					}
				}
			}
		}
	}
	// loop ordinals by source position of the loop (position of the header's first positioned instruction)
	var hs []*loopInfo
	for _, li := range fr.loops {
		li.pos = loopPos(li)
		hs = append(hs, li)
	}
	sort.Slice(hs, func(i, j int) bool {
		if hs[i].pos != hs[j].pos {
			return hs[i].pos < hs[j].pos
		}
		return hs[i].header.Index < hs[j].header.Index
	})
	for i, li := range hs {
		li.ordinal = i + 1
	}
	// topological order ignoring back edges (reverse postorder)
	seen := map[int]bool{}
	var post []*ssa.BasicBlock
	var dfs func(b *ssa.BasicBlock)
	// successors that stay inside a loop containing b are visited LAST, so that (in reverse postorder) a loop's body
	// precedes the code after the loop: the obligations generated inside the body then do not carry the definitions of
	// the code that follows the loop in their prefix
	inLoopWith := func(b, s *ssa.BasicBlock) bool {
		for _, li := range fr.loops {
			if li.body[b.Index] && li.body[s.Index] {
				return true
			}
		}
		return false
	}
	dfs = func(b *ssa.BasicBlock) {
		seen[b.Index] = true
		for pass := 0; pass < 2; pass++ {
			for _, s := range b.Succs {
				if fr.backEdge[[2]int{b.Index, s.Index}] || seen[s.Index] {
					continue
				}
				if inLoopWith(b, s) != (pass == 1) {
					continue
				}
				dfs(s)
			}
		}
		post = append(post, b)
	}
	if len(fn.Blocks) > 0 {
		dfs(fn.Blocks[0])
	}
	for i := len(post) - 1; i >= 0; i-- {
		fr.order = append(fr.order, post[i])
	}
}

func loopPos(li *loopInfo) token.Pos {
	best := token.NoPos
	var idxs []int
	for i := range li.body {
		idxs = append(idxs, i)
	}
	sort.Ints(idxs)
	blocks := li.header.Parent().Blocks
	for _, i := range idxs {
		for _, in := range blocks[i].Instrs {
			if p := in.Pos(); p != token.NoPos {
				if best == token.NoPos || p < best {
					best = p
				}
			}
		}
	}
	return best
}

func (e *Enc) posStr(p token.Pos) string {
	if p == token.NoPos {
		return ""
	}
	ps := e.P.Fset.Position(p)
	return fmt.Sprintf("%s:%d", ps.Filename, ps.Line)
}

// mergeStates joins states; conds[i] is the edge condition of states[i].
func (e *Enc) mergeStates(hint string, sts []*State, conds []string) *State {
	if len(sts) == 1 {
		n := sts[0].clone()
		n.reach = conds[0]
		return n
	}
	n := &State{heap: map[string]string{}}
	n.reach = e.nameBool(hint+"!reach", or(conds...))
	sameHist := true
	for _, s := range sts {
		if s.epoch != sts[0].epoch || s.mergeOf != nil {
			sameHist = false
		}
	}
	if sameHist {
		n.epoch = sts[0].epoch
	} else {
		// snapshots, not the live objects: callers overwrite a state object in place (`*st = *m` after an inlined
		// call or a deferred call), which would otherwise make a state its own ancestor
		for _, s := range sts {
			n.mergeOf = append(n.mergeOf, s.clone())
		}
		n.mergeConds = append([]string(nil), conds...)
	}
	keys := map[string]bool{}
	for _, s := range sts {
		for k := range s.heap {
			keys[k] = true
		}
	}
	ks := make([]string, 0, len(keys))
	for k := range keys {
		ks = append(ks, k)
	}
	sort.Strings(ks)
	for _, k := range ks {
		sortK := e.heapSort[k]
		var terms []string
		same := true
		for _, s := range sts {
			t, ok := s.heap[k]
			if !ok {
				t = e.heapGet(s, k, sortK)
			}
			terms = append(terms, t)
			if t != terms[0] {
				same = false
			}
		}
		if same {
			n.heap[k] = terms[0]
			continue
		}
		m := e.fresh(k, sortK)
		for i, t := range terms {
			e.assert(implies(conds[i], eq(m, t)))
		}
		n.heap[k] = m
	}
	// alloc
	same := true
	for _, s := range sts {
		if s.alloc != sts[0].alloc {
			same = false
		}
	}
	if same {
		n.alloc = sts[0].alloc
	} else {
		m := e.fresh("alloc", "Int")
		for i, s := range sts {
			e.assert(implies(conds[i], eq(m, s.alloc)))
		}
		n.alloc = m
	}
	// defers: take the longest list (registration flags make the others inert)
	for _, s := range sts {
		if len(s.defers) > len(n.defers) {
			n.defers = append([]*deferRec(nil), s.defers...)
		}
	}
	return n
}

func (e *Enc) nameBool(hint, term string) string {
	if len(term) < 48 || len(e.boundIn(term)) > 0 {
		return term
	}
	n := e.fresh(hint, "Bool")
	e.assert(eq(n, term))
	return n
}

func (e *Enc) mergeVals(hint string, vs []*Val, conds []string) *Val {
	if len(vs) == 0 {
		return nil
	}
	if len(vs) == 1 {
		return vs[0]
	}
	first := vs[0]
	allSame := true
	for _, v := range vs {
		if v.Loc != nil || v.Clos != nil {
			// closures / interior pointers merge only if identical objects
			if v != first {
				allSame = false
			}
		}
	}
	if (first.Loc != nil || first.Clos != nil) && allSame {
		return first
	}
	// nil and interior pointers of one shape (same container type, field path; 'F' kind) on different paths: one interior
	// pointer whose object reference depends on the path, 0 standing for nil
	if lv := e.mergeNullableLocs(hint, vs, conds); lv != nil {
		return lv
	}
	// different closures on different paths: keep the alternatives with their path conditions
	allClos := true
	for _, v := range vs {
		if v.Clos == nil && len(v.Alts) == 0 {
			allClos = false
		}
	}
	if allClos {
		out := &Val{T: first.T}
		for i, v := range vs {
			if v.Clos != nil {
				out.Alts = append(out.Alts, ClosAlt{conds[i], v.Clos})
			}
			for _, a := range v.Alts {
				out.Alts = append(out.Alts, ClosAlt{and(conds[i], a.Cond), a.Clos})
			}
		}
		return out
	}
	out := &Val{T: first.T}
	for i := range first.L {
		same := true
		for _, v := range vs {
			if len(v.L) != len(first.L) {
				e.unsupportedf("merge of values with different shapes at %s (closure or interior pointer through phi?)", hint)
				return first
			}
			if v.L[i].T != first.L[i].T {
				same = false
			}
		}
		if same {
			out.L = append(out.L, first.L[i])
			continue
		}
		t := vs[len(vs)-1].L[i].T
		for j := len(vs) - 2; j >= 0; j-- {
			t = ite(conds[j], vs[j].L[i].T, t)
		}
		out.L = append(out.L, Sc{e.define(hint, first.L[i].S, t), first.L[i].S})
	}
	return out
}

func (e *Enc) mergeNullableLocs(hint string, vs []*Val, conds []string) *Val {
	var proto *Loc
	for _, v := range vs {
		switch {
		case v.Loc != nil:
			if v.Clos != nil || v.Loc.Kind != 'F' {
				return nil
			}
			if proto == nil {
				proto = v.Loc
			} else if proto.Key != v.Loc.Key || proto.Path != v.Loc.Path || typeStr(proto.T) != typeStr(v.Loc.T) {
				return nil
			}
		case v.Clos == nil && len(v.L) == 1 && v.L[0].T == "0":
			// the nil pointer
		default:
			return nil
		}
	}
	if proto == nil {
		return nil
	}
	refOf := func(v *Val) string {
		if v.Loc != nil {
			return v.Loc.Ref
		}
		return "0"
	}
	t := refOf(vs[len(vs)-1])
	for j := len(vs) - 2; j >= 0; j-- {
		t = ite(conds[j], refOf(vs[j]), t)
	}
	nl := *proto
	nl.Ref = e.define(hint+"!iptr", "Int", t)
	nl.Nullable = true
	return &Val{T: vs[0].T, Loc: &nl}
}

// edgeCond returns the condition for taking edge from block b (already encoded, end state st) to succ index si.
func (e *Enc) edgeCond(fr *Frame, b *ssa.BasicBlock, st *State, si int) string {
	if len(b.Instrs) == 0 {
		return st.reach
	}
	if iff, ok := b.Instrs[len(b.Instrs)-1].(*ssa.If); ok {
		c := e.val(fr, iff.Cond).L[0].T
		if si == 0 {
			return and(st.reach, c)
		}
		return and(st.reach, not(c))
	}
	return st.reach
}

// encodeBody encodes the (sub)graph of fr.fn. Returns through fr.exits.
func (e *Enc) encodeBody(fr *Frame, entry *State) {
	if fr.order == nil {
		e.analyze(fr)
	}
	fr.blockOut = map[int]*State{}
	e.encodeBlocks(fr, fr.order, entry, nil)
}

// encodeBlocks processes blocks (in topological order). If within != nil only blocks in that set are processed and
// the first block uses 'entry' as its state.
func (e *Enc) encodeBlocks(fr *Frame, order []*ssa.BasicBlock, entry *State, within map[int]bool) {
	for idx, b := range order {
		if within != nil && !within[b.Index] {
			continue
		}
		var st *State
		isFirst := (within == nil && b.Index == 0) || (within != nil && idx == 0)
		li := fr.loops[b.Index]
		if isFirst && within == nil {
			st = entry
		} else if isFirst {
			st = entry
		} else {
			// gather forward predecessors
			var sts []*State
			var conds []string
			var preds []*ssa.BasicBlock
			for _, p := range b.Preds {
				if fr.backEdge[[2]int{p.Index, b.Index}] {
					continue
				}
				ps, ok := fr.blockOut[p.Index]
				if !ok {
					continue // unreachable or outside region
				}
				for si, s := range p.Succs {
					if s == b {
						c := e.edgeCond(fr, p, ps, si)
						if c == "false" {
							continue
						}
						sts = append(sts, ps)
						conds = append(conds, c)
						preds = append(preds, p)
					}
				}
			}
			if len(sts) == 0 {
				continue // unreachable
			}
			st = e.mergeStates(fmt.Sprintf("%sb%d", fr.prefix, b.Index), sts, conds)
			// phis (non-header or header forward part)
			e.encodePhis(fr, b, preds, conds, li != nil)
		}
		if li != nil && !(within != nil && isFirst) {
			st = e.enterLoop(fr, li, st)
			if st == nil {
				continue
			}
		}
		// blocks of a loop declared `fresh_writes`: heap writes are checked to go to objects allocated during the call
		pushed := 0
		{
			for _, l := range fr.loops {
				if sp := e.loopSpecOrd(fr, l.ordinal); sp != nil && sp.FreshWrites && l.body[b.Index] {
					name := fmt.Sprintf("loop%d", l.ordinal)
					if fr.parent != nil {
						name = shortFn(fr.fn) + "/" + name
					}
					e.freshCtx = append(e.freshCtx, name)
					pushed++
				}
			}
		}
		e.encodeInstrs(fr, b, st)
		e.freshCtx = e.freshCtx[:len(e.freshCtx)-pushed]
	}
}

func (e *Enc) encodePhis(fr *Frame, b *ssa.BasicBlock, preds []*ssa.BasicBlock, conds []string, isHeader bool) {
	for _, in := range b.Instrs {
		phi, ok := in.(*ssa.Phi)
		if !ok {
			break
		}
		var vs []*Val
		var cs []string
		for i, p := range preds {
			for j, bp := range b.Preds {
				if bp == p {
					// several edges from same pred: pick matching edge index j
					vs = append(vs, e.val(fr, phi.Edges[j]))
					cs = append(cs, conds[i])
					break
				}
			}
		}
		fr.vals[phi] = e.mergeVals(fr.prefix+phi.Name(), vs, cs)
	}
}

// site names an implicit obligation site semantically: <kind>@<n> where n is the rank, in source order, of this
// instruction among the instructions of the same class in its function (so names survive line shifts, renames and
// edits elsewhere in the function body that do not add a site of the same class before it).
func (e *Enc) site(fr *Frame, kind string, pos token.Pos) string {
	class := kind
	if strings.HasPrefix(class, "callpanic:") {
		class = "call:" + fr.curCallClass
		kind = "callpanic:" + fr.curCallClass
	} else if strings.HasPrefix(class, "call:") {
		class = "call:" + fr.curCallClass
		kind = class
	}
	if fr.ranks == nil {
		fr.ranks = computeRanks(fr.fn)
	}
	var name string
	if r, ok := fr.ranks[class][pos]; ok && pos != token.NoPos {
		name = fmt.Sprintf("%s@%d", kind, r)
	} else {
		if fr.siteN == nil {
			fr.siteN = map[string]int{}
		}
		fr.siteN[kind]++
		name = fmt.Sprintf("%s@x%d", kind, fr.siteN[kind])
	}
	var chain []string
	for f := fr; f != nil && f.parent != nil; f = f.parent {
		chain = append([]string{shortFn(f.fn)}, chain...)
	}
	if len(chain) > 0 {
		return strings.Join(chain, "/") + "/" + name
	}
	return name
}

func staticCallShort(cc *ssa.CallCommon) string {
	if cc.IsInvoke() {
		return recvShort(cc.Value.Type()) + "." + cc.Method.Name()
	}
	if b, ok := cc.Value.(*ssa.Builtin); ok {
		return "builtin." + b.Name()
	}
	if fn := cc.StaticCallee(); fn != nil {
		if o, ok := fn.Object().(*types.Func); ok && o != nil {
			sig := o.Type().(*types.Signature)
			if sig.Recv() != nil {
				return recvShort(sig.Recv().Type()) + "." + o.Name()
			}
			return o.Name()
		}
		return fn.Name()
	}
	return "dyncall"
}

func instrClasses(in ssa.Instruction) []string {
	switch in := in.(type) {
	case ssa.CallInstruction:
		return []string{"call:" + staticCallShort(in.Common()), "nil"}
	case *ssa.BinOp:
		if in.Op == token.QUO || in.Op == token.REM {
			return []string{"div"}
		}
	case *ssa.FieldAddr, *ssa.Store:
		return []string{"nil"}
	case *ssa.UnOp:
		if in.Op == token.MUL {
			return []string{"nil"}
		}
	case *ssa.IndexAddr, *ssa.Index:
		return []string{"nil", "index"}
	case *ssa.Slice:
		return []string{"slice"}
	case *ssa.TypeAssert:
		return []string{"assert"}
	case *ssa.Panic:
		return []string{"panic"}
	case *ssa.MapUpdate:
		return []string{"nilmap"}
	case *ssa.MakeSlice:
		return []string{"makeslice"}
	}
	return nil
}

func computeRanks(fn *ssa.Function) map[string]map[token.Pos]int {
	byClass := map[string][]token.Pos{}
	for _, b := range fn.Blocks {
		for _, in := range b.Instrs {
			p := in.Pos()
			if p == token.NoPos {
				continue
			}
			for _, c := range instrClasses(in) {
				byClass[c] = append(byClass[c], p)
			}
		}
	}
	out := map[string]map[token.Pos]int{}
	for c, ps := range byClass {
		sort.Slice(ps, func(i, j int) bool { return ps[i] < ps[j] })
		m := map[token.Pos]int{}
		n := 0
		for i, p := range ps {
			if i == 0 || p != ps[i-1] {
				n++
			}
			m[p] = n
		}
		out[c] = m
	}
	return out
}

func shortFn(fn *ssa.Function) string {
	if o, ok := fn.Object().(*types.Func); ok && o != nil {
		sig := o.Type().(*types.Signature)
		if sig.Recv() != nil {
			return recvShort(sig.Recv().Type()) + "." + o.Name()
		}
		if o.Pkg() != nil {
			return o.Pkg().Name() + "." + o.Name()
		}
		return o.Name()
	}
	return fn.Name()
}

func (e *Enc) addPanic(fr *Frame, st *State, kind, cond, desc string, pos token.Pos) {
	if e.dry > 0 {
		return
	}
	reach := and(st.reach, cond)
	if reach == "false" {
		return
	}
	e.panics = append(e.panics, &PanicSite{Name: e.site(fr, kind, pos), Reach: reach, N: len(e.out), Desc: desc, Pos: e.posStr(pos), Kind: kind})
}

// safety: the operation panics when !ok; continue under ok.
func (e *Enc) safety(fr *Frame, st *State, kind, ok, desc string, pos token.Pos) {
	if ok == "true" {
		return
	}
	e.addPanic(fr, st, kind, not(ok), desc, pos)
	st.reach = e.nameBool(fr.prefix+"ok", and(st.reach, ok))
}

func (e *Enc) addObl(o *Obligation) {
	if e.dry > 0 {
		return
	}
	o.N = len(e.out)
	o.Func = e.funcName
	e.obls = append(e.obls, o)
}
