package keeper_test

// Replay of the counterexample of obligation
//   (*core/vm.EVMInterpreter).RunPrecompiledContract#ensures:C12.sticky_readonly      (depspecs/core_vm_evermint.spec)
// model: in.readOnly == true (some ancestor frame is a STATICCALL), readOnly parameter == false (the innermost opcode is
// CALL), methods[..].ReadOnly == false (approve)  ==>  the executor runs although the context is read-only.
// Injected with `go test -overlay` (nothing is written into the repository):
//   go test -overlay ov.json -vet=off -count=1 -run TestReplayC12StickyReadOnly -v ./x/cpc/keeper
import (
	"math/big"
	"testing"

	"github.com/stretchr/testify/require"

	"github.com/ethereum/go-ethereum/common"
	"github.com/ethereum/go-ethereum/core"
	ethtypes "github.com/ethereum/go-ethereum/core/types"
	corevm "github.com/ethereum/go-ethereum/core/vm"

	"github.com/EscanBE/evermint/v12/constants"
	"github.com/EscanBE/evermint/v12/integration_test_util"
	cpctypes "github.com/EscanBE/evermint/v12/x/cpc/types"
	evmtypes "github.com/EscanBE/evermint/v12/x/evm/types"
	evmvm "github.com/EscanBE/evermint/v12/x/evm/vm"
)

func TestReplayC12StickyReadOnly(t *testing.T) {
	cits := integration_test_util.CreateChainIntegrationTestSuiteFromChainConfig(t, require.New(t), integration_test_util.IntegrationTestChain1, true)
	defer cits.Cleanup()
	app := cits.ChainApp
	ctx := cits.CurrentContext

	token, err := app.CpcKeeper().DeployErc20CustomPrecompiledContract(ctx, "replay", cpctypes.Erc20CustomPrecompiledContractMeta{
		Symbol: constants.DisplayDenom, Decimals: constants.BaseDenomExponent, MinDenom: constants.BaseDenom,
	})
	require.NoError(t, err)

	sender := cits.WalletAccounts.Number(1).GetEthAddress()
	spender := common.HexToAddress("0x00000000000000000000000000000000000000aa")
	forwarder := common.HexToAddress("0x00000000000000000000000000000000000f0f0f")

	// forwarder: CALL(gas, token, 0, calldata) and return the CALL's success flag as one word
	code := []byte{
		0x36, 0x60, 0x00, 0x60, 0x00, 0x37, // CALLDATACOPY(0, 0, CALLDATASIZE)
		0x60, 0x00, 0x60, 0x00, 0x36, 0x60, 0x00, 0x60, 0x00, // outSize outOff inSize inOff value
		0x73, // PUSH20 token
	}
	code = append(code, token.Bytes()...)
	code = append(code,
		0x5a, 0xf1, // GAS CALL
		0x60, 0x00, 0x52, 0x60, 0x20, 0x60, 0x00, 0xf3, // MSTORE(0, success) RETURN(0, 32)
	)

	// approve(spender, 7)
	input := append([]byte{0x09, 0x5e, 0xa7, 0xb3}, common.LeftPadBytes(spender.Bytes(), 32)...)
	input = append(input, common.LeftPadBytes(big.NewInt(7).Bytes(), 32)...)

	k := app.EvmKeeper()
	cfg, err := k.EVMConfig(ctx, nil)
	require.NoError(t, err)
	stateDB := evmvm.NewStateDB(ctx, cfg.CoinBase, k, *app.AccountKeeper(), app.BankKeeper())
	stateDB.SetCode(forwarder, code)
	msg := ethtypes.NewMessage(sender, &forwarder, 0, big.NewInt(0), 5_000_000, big.NewInt(0), big.NewInt(0), big.NewInt(0), nil, nil, true)
	evm := k.NewEVM(ctx, core.Message(msg), cfg, evmtypes.NewNoOpTracer(), stateDB)

	// 1. direct STATICCALL of approve: correctly refused
	_, _, errDirect := evm.StaticCall(corevm.AccountRef(sender), token, input, 1_000_000)
	t.Logf("direct STATICCALL approve -> err=%v", errDirect)
	require.ErrorIs(t, errDirect, corevm.ErrWriteProtection)
	require.Empty(t, stateDB.GetTransactionLogs())

	// 2. STATICCALL of the forwarder, which CALLs approve: the read-only context is lost
	before := app.CpcKeeper().GetErc20CpcAllowance(stateDB.GetCurrentContext(), forwarder, spender)
	ret, _, errFwd := evm.StaticCall(corevm.AccountRef(sender), forwarder, input, 2_000_000)
	after := app.CpcKeeper().GetErc20CpcAllowance(stateDB.GetCurrentContext(), forwarder, spender)
	logs := stateDB.GetTransactionLogs()
	t.Logf("STATICCALL forwarder -> err=%v innerSuccess=%x allowance %s -> %s logs=%d", errFwd, ret, before, after, len(logs))
	require.NoError(t, errFwd)

	// the violated clause, evaluated on the real outcome: inside a read-only context the executor must not have run
	violated := new(big.Int).SetBytes(ret).Sign() != 0 || after.Cmp(before) != 0 || len(logs) != 0
	if violated {
		t.Logf("REPRODUCED: C12.sticky_readonly violated on the real code (state changed and a log was emitted inside a STATICCALL context)")
	} else {
		t.Logf("NOT REPRODUCED")
	}
	require.True(t, violated, "counterexample does not reproduce")
}
