package keeper_test

// Replay of the counterexample of the obligations
//   (x/cpc/keeper.stakingCustomPrecompiledContractRoRewardOf).Execute#ensures:C12.ro_world_unchanged  /  #frame:G|distVersion
// (also ...RoRewardsOf, ...RoBalanceOf): the method declares ReadOnly() == true, yet it calls the x/distribution gRPC
// querier (DelegationRewards) on the LIVE execution context, and that querier runs IncrementValidatorPeriod, which writes
// x/distribution state. Injected with `go test -overlay`:
//   go test -overlay ov.json -vet=off -count=1 -run TestReplayC12ReadOnlyMethodWrites -v ./x/cpc/keeper
import (
	"math"
	"math/big"
	"testing"

	"github.com/stretchr/testify/require"

	"github.com/ethereum/go-ethereum/common"
	"github.com/ethereum/go-ethereum/core"
	ethtypes "github.com/ethereum/go-ethereum/core/types"
	corevm "github.com/ethereum/go-ethereum/core/vm"

	"github.com/EscanBE/evermint/v12/constants"
	"github.com/EscanBE/evermint/v12/integration_test_util"
	cpctypes "github.com/EscanBE/evermint/v12/x/cpc/types"
	evmtypes "github.com/EscanBE/evermint/v12/x/evm/types"
	evmvm "github.com/EscanBE/evermint/v12/x/evm/vm"
)

func TestReplayC12ReadOnlyMethodWrites(t *testing.T) {
	cits := integration_test_util.CreateChainIntegrationTestSuiteFromChainConfig(t, require.New(t), integration_test_util.IntegrationTestChain1, true)
	defer cits.Cleanup()
	app := cits.ChainApp

	_, err := app.CpcKeeper().DeployStakingCustomPrecompiledContract(cits.CurrentContext, cpctypes.StakingCustomPrecompiledContractMeta{
		Symbol: constants.DisplayDenom, Decimals: constants.BaseDenomExponent,
	})
	require.NoError(t, err)

	delegator := cits.WalletAccounts.Number(1)
	validator := cits.ValidatorAccounts.Number(1)
	// a delegation with pending rewards (the repository's own helper)
	cits.TxPrepareContextWithdrawDelegatorAndValidatorReward(delegator, math.MaxUint8, 10)
	ctx := cits.CurrentContext

	// rewardOf(delegator, validator)
	input := append([]byte{0x47, 0x32, 0xaa, 0x1d}, common.LeftPadBytes(delegator.GetEthAddress().Bytes(), 32)...)
	input = append(input, common.LeftPadBytes(validator.GetEthAddress().Bytes(), 32)...)

	k := app.EvmKeeper()
	cfg, err := k.EVMConfig(ctx, nil)
	require.NoError(t, err)
	stateDB := evmvm.NewStateDB(ctx, cfg.CoinBase, k, *app.AccountKeeper(), app.BankKeeper())
	sender := delegator.GetEthAddress()
	to := cpctypes.CpcStakingFixedAddress
	msg := ethtypes.NewMessage(sender, &to, 0, big.NewInt(0), 5_000_000, big.NewInt(0), big.NewInt(0), big.NewInt(0), nil, nil, true)
	evm := k.NewEVM(ctx, core.Message(msg), cfg, evmtypes.NewNoOpTracer(), stateDB)

	valAddr := validator.GetValidatorAddress()
	before, err := app.DistributionKeeper().GetValidatorCurrentRewards(stateDB.GetCurrentContext(), valAddr)
	require.NoError(t, err)

	// a STATICCALL of a method that declares itself read-only
	ret, _, errCall := evm.StaticCall(corevm.AccountRef(sender), to, input, 1_000_000)
	require.NoError(t, errCall)

	after, err := app.DistributionKeeper().GetValidatorCurrentRewards(stateDB.GetCurrentContext(), valAddr)
	require.NoError(t, err)
	t.Logf("STATICCALL rewardOf -> reward=%s ; x/distribution ValidatorCurrentRewards: period %d -> %d, rewards %s -> %s",
		new(big.Int).SetBytes(ret), before.Period, after.Period, before.Rewards, after.Rewards)

	violated := before.Period != after.Period || !before.Rewards.Equal(after.Rewards)
	if violated {
		t.Logf("REPRODUCED: C12.ro_world_unchanged violated on the real code (a read-only method changed x/distribution state inside a STATICCALL)")
	} else {
		t.Logf("NOT REPRODUCED")
	}
	require.True(t, violated, "counterexample does not reproduce")

	// and the change is committed with the transaction's state
	require.NoError(t, stateDB.CommitMultiStore(true))
	committed, err := app.DistributionKeeper().GetValidatorCurrentRewards(ctx, valAddr)
	require.NoError(t, err)
	t.Logf("after CommitMultiStore on the transaction context: period %d", committed.Period)
	require.Equal(t, after.Period, committed.Period)
}
