package keeper_test

// Replay of the counterexample of the obligation
//   x/cpc.ExportGenesis#ensures:C18.cpc_export_determines_view      (DESIGN.md §8 F8, cpc part)
// The exported x/cpc GenesisState has only the params and two booleans; DeployErc20Native is exported as `false`
// unconditionally. An ERC-20 precompile (registry record + denom index entry) and an allowance exist before the export;
// after InitGenesis(export) on an EMPTY module store they are gone. Injected with `go test -overlay`:
//   go test -overlay ov.json -vet=off -count=1 -run TestReplayC18CpcGenesisRoundTrip -v ./x/cpc/keeper
import (
	"math/big"
	"testing"

	"github.com/stretchr/testify/require"

	"github.com/ethereum/go-ethereum/common"

	"cosmossdk.io/store/rootmulti"

	"github.com/EscanBE/evermint/v12/constants"
	"github.com/EscanBE/evermint/v12/integration_test_util"
	"github.com/EscanBE/evermint/v12/x/cpc"
	cpctypes "github.com/EscanBE/evermint/v12/x/cpc/types"
)

func TestReplayC18CpcGenesisRoundTrip(t *testing.T) {
	cits := integration_test_util.CreateChainIntegrationTestSuiteFromChainConfig(t, require.New(t), integration_test_util.IntegrationTestChain1, true)
	defer cits.Cleanup()
	app := cits.ChainApp
	ctx := cits.CurrentContext
	k := app.CpcKeeper()

	// an ERC-20 precompile for the native denomination (deploy it if this chain's genesis did not)
	addrPtr := k.GetErc20CustomPrecompiledContractAddressByMinDenom(ctx, constants.BaseDenom)
	if addrPtr == nil {
		a, err := k.DeployErc20CustomPrecompiledContract(ctx, "Wrapped", cpctypes.Erc20CustomPrecompiledContractMeta{Symbol: "WX", Decimals: 18, MinDenom: constants.BaseDenom})
		require.NoError(t, err)
		addrPtr = &a
	}
	erc20 := *addrPtr
	owner := cits.WalletAccounts.Number(1).GetEthAddress()
	spender := cits.WalletAccounts.Number(2).GetEthAddress()
	k.SetErc20CpcAllowance(ctx, owner, spender, big.NewInt(7))
	require.True(t, k.HasCustomPrecompiledContract(ctx, erc20))
	require.Equal(t, int64(7), k.GetErc20CpcAllowance(ctx, owner, spender).Int64())

	exported := cpc.ExportGenesis(ctx, *k)
	t.Logf("export: DeployErc20Native=%v DeployStakingContract=%v (the GenesisState has no other field besides the params)", exported.DeployErc20Native, exported.DeployStakingContract)

	// import into an EMPTY module store (a branch of the state whose cpc store has been emptied)
	fresh, _ := ctx.CacheContext()
	storeKey := app.BaseApp().CommitMultiStore().(*rootmulti.Store).StoreKeysByName()[cpctypes.StoreKey]
	require.NotNil(t, storeKey)
	store := fresh.KVStore(storeKey)
	it := store.Iterator(nil, nil)
	var keys [][]byte
	for ; it.Valid(); it.Next() {
		keys = append(keys, append([]byte{}, it.Key()...))
	}
	_ = it.Close()
	for _, key := range keys {
		store.Delete(key)
	}
	require.False(t, k.HasCustomPrecompiledContract(fresh, erc20))
	cpc.InitGenesis(fresh, *k, *app.StakingKeeper(), exported)

	hasErc20 := k.HasCustomPrecompiledContract(fresh, erc20) || k.GetErc20CustomPrecompiledContractAddressByMinDenom(fresh, constants.BaseDenom) != nil
	allowance := k.GetErc20CpcAllowance(fresh, owner, spender)
	t.Logf("after InitGenesis(export) on an empty store: ERC-20 precompile present=%v, allowance(owner,spender)=%s (was 7), bech32 present=%v",
		hasErc20, allowance, k.HasCustomPrecompiledContract(fresh, cpctypes.CpcBech32FixedAddress))
	violated := !hasErc20 && allowance.Sign() == 0 && !exported.DeployErc20Native
	if violated {
		t.Logf("REPRODUCED: C18.cpc_export_determines_view violated on the real code (ERC-20 precompile %s and the allowance are lost by export/import)", common.Address(erc20).Hex())
	} else {
		t.Logf("NOT REPRODUCED")
	}
	require.True(t, violated, "counterexample does not reproduce")
}
