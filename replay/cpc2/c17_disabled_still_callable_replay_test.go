package keeper_test

// Replay of the counterexample of the obligation
//   (*x/evm/keeper.Keeper).NewEVM#ensures:C17.disabled_not_callable
// (DESIGN.md §8 F7): the registry record of a custom precompile carries a Disabled flag, the fork's contract object has a
// `disabled` field that RunPrecompiledContract honours (ErrDisabledPrecompile) and a setter WithDisabled — but NewEVM builds
// every fork object with corevm.NewCustomPrecompiledContract(...) and never passes the stored flag on. A contract marked
// disabled in the registry stays callable. Injected with `go test -overlay` (nothing is written to the repository):
//   go test -overlay ov.json -vet=off -count=1 -run TestReplayC17DisabledStillCallable -v ./x/cpc/keeper
import (
	"math/big"
	"testing"

	"github.com/stretchr/testify/require"

	"github.com/ethereum/go-ethereum/core"
	ethtypes "github.com/ethereum/go-ethereum/core/types"
	corevm "github.com/ethereum/go-ethereum/core/vm"

	"github.com/EscanBE/evermint/v12/integration_test_util"
	cpctypes "github.com/EscanBE/evermint/v12/x/cpc/types"
	evmtypes "github.com/EscanBE/evermint/v12/x/evm/types"
	evmvm "github.com/EscanBE/evermint/v12/x/evm/vm"
)

func TestReplayC17DisabledStillCallable(t *testing.T) {
	cits := integration_test_util.CreateChainIntegrationTestSuiteFromChainConfig(t, require.New(t), integration_test_util.IntegrationTestChain1, true)
	defer cits.Cleanup()
	app := cits.ChainApp
	ctx := cits.CurrentContext

	// the bech32 precompile is deployed at genesis at its fixed address; deploy it if this chain config did not
	to := cpctypes.CpcBech32FixedAddress
	if !app.CpcKeeper().HasCustomPrecompiledContract(ctx, to) {
		_, err := app.CpcKeeper().DeployBech32CustomPrecompiledContract(ctx)
		require.NoError(t, err)
	}
	meta := app.CpcKeeper().GetCustomPrecompiledContractMeta(ctx, to)
	require.NotNil(t, meta)
	require.False(t, meta.Disabled)

	// mark the record disabled through the keeper API (what an upgrade handler would do)
	meta.Disabled = true
	require.NoError(t, app.CpcKeeper().SetCustomPrecompiledContractMeta(ctx, *meta, false))
	stored := app.CpcKeeper().GetCustomPrecompiledContractMeta(ctx, to)
	require.NotNil(t, stored)
	require.True(t, stored.Disabled, "the registry record is disabled")

	k := app.EvmKeeper()
	cfg, err := k.EVMConfig(ctx, nil)
	require.NoError(t, err)
	stateDB := evmvm.NewStateDB(ctx, cfg.CoinBase, k, *app.AccountKeeper(), app.BankKeeper())
	sender := cits.WalletAccounts.Number(1).GetEthAddress()
	msg := ethtypes.NewMessage(sender, &to, 0, big.NewInt(0), 5_000_000, big.NewInt(0), big.NewInt(0), big.NewInt(0), nil, nil, true)
	evm := k.NewEVM(ctx, core.Message(msg), cfg, evmtypes.NewNoOpTracer(), stateDB)

	// bech32AccountAddrPrefix(): selector of bech32CustomPrecompiledContractRoAccountAddrPrefix
	input := []byte{0x96, 0x44, 0x3b, 0x16}
	ret, _, errCall := evm.Call(corevm.AccountRef(sender), to, input, 1_000_000, big.NewInt(0))
	t.Logf("registry record disabled=%v ; EVM CALL to the disabled precompile -> err=%v, %d bytes returned", stored.Disabled, errCall, len(ret))

	violated := errCall == nil && len(ret) > 0
	if violated {
		t.Logf("REPRODUCED: C17.disabled_not_callable violated on the real code (a contract marked disabled in the registry executes; expected %v)", corevm.ErrDisabledPrecompile)
	} else {
		t.Logf("NOT REPRODUCED (err=%v)", errCall)
	}
	require.True(t, violated, "counterexample does not reproduce")
}
