package evm_test

import (
	"bytes"
	"encoding/json"
	"math/big"
	"sort"
	"testing"

	"cosmossdk.io/log"
	abci "github.com/cometbft/cometbft/abci/types"
	tmproto "github.com/cometbft/cometbft/proto/tendermint/types"
	sdkdb "github.com/cosmos/cosmos-db"
	"github.com/cosmos/cosmos-sdk/baseapp"
	simtestutil "github.com/cosmos/cosmos-sdk/testutil/sims"
	"github.com/ethereum/go-ethereum/common"
	"github.com/stretchr/testify/require"

	chainapp "github.com/EscanBE/evermint/v12/app"
	"github.com/EscanBE/evermint/v12/integration_test_util"
	itutiltypes "github.com/EscanBE/evermint/v12/integration_test_util/types"
	evmtypes "github.com/EscanBE/evermint/v12/x/evm/types"
)

// TestSeededDemo drives a real block history, exports the application state with
// ExportAppStateAndValidators, initialises a fresh chain from that export and checks that
// every contract keeps its code and storage (C18: genesis export / import round-trip).
//
// History:
//  1. (only in the second sub-test) a deployment whose constructor writes storage slot 0 and
//     returns NO runtime code: the address keeps its storage, but it is not a contract (no code hash),
//  2. four ordinary "Storage" contracts, each one receiving `store(n)`.
//
// The deployer with the numerically lowest CREATE address is used for step 1, so the code-less
// storage owner sorts before the ordinary contracts in the EVM store.
func TestGenC18CodelessStorageLost(t *testing.T) {
	t.Run("a constructor-only deployment precedes the contracts", func(t *testing.T) {
		genC18RoundTrip(t, true)
	})
}

func genC18RoundTrip(t *testing.T, withConstructorOnlyDeployment bool) {
	cits := integration_test_util.CreateChainIntegrationTestSuiteFromChainConfig(
		t, require.New(t), integration_test_util.IntegrationTestChain1, true, /*disable CometBFT*/
	)
	defer cits.Cleanup()

	// ------------------------------------------------------------------
	// choose deployers: lowest future contract address first
	// ------------------------------------------------------------------
	deployers := make([]*itutiltypes.TestAccount, 0, len(cits.WalletAccounts))
	deployers = append(deployers, cits.WalletAccounts...)
	sort.Slice(deployers, func(i, j int) bool {
		return bytes.Compare(
			deployers[i].ComputeContractAddress(0).Bytes(),
			deployers[j].ComputeContractAddress(0).Bytes(),
		) < 0
	})

	// ------------------------------------------------------------------
	// 1. constructor-only deployment: PUSH1 0x2a PUSH1 0x00 SSTORE STOP
	// ------------------------------------------------------------------
	codeLessAddr := deployers[0].ComputeContractAddress(0)
	if withConstructorOnlyDeployment {
		_, _, err := cits.TxSendEvmTx(cits.CurrentContext, deployers[0], nil, nil, common.FromHex("0x602a60005500"))
		require.NoError(t, err)
		cits.Commit()
	}

	// ------------------------------------------------------------------
	// 2. ordinary contracts with one non-zero slot each
	// ------------------------------------------------------------------
	type expectation struct {
		addr  common.Address
		value common.Hash
	}
	var contracts []expectation
	for i, deployer := range deployers[1:] {
		addr, _, _, err := cits.TxDeploy1StorageContract(deployer)
		require.NoError(t, err)
		cits.Commit()

		num := big.NewInt(int64(100 + i))
		data, err := integration_test_util.Contract1Storage.ABI.Pack("store", num)
		require.NoError(t, err)
		_, _, err = cits.TxSendEvmTx(cits.CurrentContext, deployer, &addr, nil, data)
		require.NoError(t, err)
		cits.Commit()

		require.True(t, bytes.Compare(codeLessAddr.Bytes(), addr.Bytes()) < 0)
		contracts = append(contracts, expectation{addr: addr, value: common.BigToHash(num)})
	}

	srcApp := cits.ChainApp.IbcTestingApp().(*chainapp.Evermint)
	srcCtx := srcApp.NewContextLegacy(true, tmproto.Header{Height: srcApp.LastBlockHeight()})

	// sanity of the history on the source chain
	if withConstructorOnlyDeployment {
		require.True(t, evmtypes.IsEmptyCodeHash(srcApp.EvmKeeper.GetCodeHash(srcCtx, codeLessAddr.Bytes())), "constructor-only deployment must not be a contract")
		require.Equal(t, common.BigToHash(big.NewInt(0x2a)), srcApp.EvmKeeper.GetState(srcCtx, codeLessAddr, common.Hash{}), "constructor-only deployment keeps its storage")
	}
	for _, c := range contracts {
		require.Equal(t, c.value, srcApp.EvmKeeper.GetState(srcCtx, c.addr, common.Hash{}))
	}

	// ------------------------------------------------------------------
	// export
	// ------------------------------------------------------------------
	exported, err := srcApp.ExportAppStateAndValidators(false, nil, nil)
	require.NoError(t, err)

	// ------------------------------------------------------------------
	// import into a fresh chain
	// ------------------------------------------------------------------
	chainID := integration_test_util.IntegrationTestChain1.CosmosChainId
	dstApp := chainapp.NewEvermint(
		log.NewNopLogger(), sdkdb.NewMemDB(), nil, true, map[int64]bool{}, chainapp.DefaultNodeHome, 0,
		chainapp.RegisterEncodingConfig(),
		simtestutil.NewAppOptionsWithFlagHome(chainapp.DefaultNodeHome),
		baseapp.SetChainID(chainID),
	)
	_, err = dstApp.InitChain(&abci.RequestInitChain{
		ChainId:         chainID,
		Validators:      []abci.ValidatorUpdate{},
		ConsensusParams: &exported.ConsensusParams,
		AppStateBytes:   exported.AppState,
		InitialHeight:   exported.Height,
	})
	require.NoError(t, err, "the exported state must be importable")
	_, err = dstApp.FinalizeBlock(&abci.RequestFinalizeBlock{
		Height: exported.Height,
		Hash:   dstApp.LastCommitID().Hash,
	})
	require.NoError(t, err)
	_, err = dstApp.Commit()
	require.NoError(t, err)

	dstCtx := dstApp.NewContextLegacy(true, tmproto.Header{Height: dstApp.LastBlockHeight()})

	// ------------------------------------------------------------------
	// observable state of every contract must be reproduced
	// ------------------------------------------------------------------
	for _, c := range contracts {
		srcCodeHash := srcApp.EvmKeeper.GetCodeHash(srcCtx, c.addr.Bytes())
		require.Equal(t, srcCodeHash, dstApp.EvmKeeper.GetCodeHash(dstCtx, c.addr.Bytes()), "code hash of %s", c.addr)
		require.Equal(t, srcApp.EvmKeeper.GetCode(srcCtx, srcCodeHash), dstApp.EvmKeeper.GetCode(dstCtx, srcCodeHash), "code of %s", c.addr)

		require.Equalf(t,
			srcApp.EvmKeeper.GetAccountStorage(srcCtx, c.addr), dstApp.EvmKeeper.GetAccountStorage(dstCtx, c.addr),
			"storage of contract %s is not reproduced by export -> import", c.addr,
		)
		require.Equalf(t,
			c.value, dstApp.EvmKeeper.GetState(dstCtx, c.addr, common.Hash{}),
			"slot 0 of contract %s: stored by a transaction before the export, lost after the import", c.addr,
		)
	}

	// FINDING (helper gen, C18): the storage of an address WITHOUT code hash is not exported, hence lost by the import
	if withConstructorOnlyDeployment {
		require.Equalf(t,
			srcApp.EvmKeeper.GetState(srcCtx, codeLessAddr, common.Hash{}), dstApp.EvmKeeper.GetState(dstCtx, codeLessAddr, common.Hash{}),
			"slot 0 of the code-less address %s: 0x2a before the export, lost after the import", codeLessAddr,
		)
	}

	// ------------------------------------------------------------------
	// second export yields the same EVM contracts again
	// ------------------------------------------------------------------
	exportedAgain, err := dstApp.ExportAppStateAndValidators(false, nil, nil)
	require.NoError(t, err)
	require.Equal(t, genC18EvmAccountsOf(t, exported.AppState), genC18EvmAccountsOf(t, exportedAgain.AppState), "EVM accounts of the second export")
	for _, c := range contracts {
		var found bool
		for _, ga := range genC18EvmAccountsOf(t, exported.AppState) {
			if common.HexToAddress(ga.Address) != c.addr {
				continue
			}
			found = true
			require.Equalf(t,
				evmtypes.Storage{evmtypes.NewState(common.Hash{}, c.value)}, ga.Storage,
				"exported storage of contract %s", c.addr,
			)
		}
		require.Truef(t, found, "contract %s missing from export", c.addr)
	}
}

func genC18EvmAccountsOf(t *testing.T, appState json.RawMessage) []evmtypes.GenesisAccount {
	var genesisState map[string]json.RawMessage
	require.NoError(t, json.Unmarshal(appState, &genesisState))

	var evmGenesis evmtypes.GenesisState
	chainapp.RegisterEncodingConfig().Codec.MustUnmarshalJSON(genesisState[evmtypes.ModuleName], &evmGenesis)
	return evmGenesis.Accounts
}
