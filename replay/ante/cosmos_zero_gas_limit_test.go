package duallane_test

import (
	"testing"

	sdkmath "cosmossdk.io/math"
	sdk "github.com/cosmos/cosmos-sdk/types"
	banktypes "github.com/cosmos/cosmos-sdk/x/bank/types"

	chainapp "github.com/EscanBE/evermint/v12/app"
	"github.com/EscanBE/evermint/v12/app/antedl/duallane"
	"github.com/EscanBE/evermint/v12/constants"
)

// Replay of CosmosTxFeeChecker$1#callpanic:getTxPriority (QuoRaw by a zero gas limit): a Cosmos tx declaring gas limit 0
// panics "Division by zero" in the fee checker (the SDK's own default checker has the same division).
func TestReplayCosmosZeroGasLimitPanics(t *testing.T) {
	enc := chainapp.RegisterEncodingConfig()
	txb := enc.TxConfig.NewTxBuilder()
	addr := sdk.AccAddress(make([]byte, 20)).String()
	if err := txb.SetMsgs(&banktypes.MsgSend{FromAddress: addr, ToAddress: addr, Amount: sdk.NewCoins(sdk.NewCoin(constants.BaseDenom, sdkmath.NewInt(1)))}); err != nil {
		t.Fatal(err)
	}
	txb.SetFeeAmount(sdk.NewCoins(sdk.NewCoin(constants.BaseDenom, sdkmath.NewInt(1000))))
	txb.SetGasLimit(0)
	fc := duallane.CosmosTxFeeChecker(ekMock{}, fkMock{baseFee: sdkmath.NewInt(1)})
	defer func() {
		r := recover()
		t.Logf("recovered: %v", r)
		if r == nil {
			t.Fatal("expected the division-by-zero panic")
		}
	}()
	fee, prio, err := fc(sdk.Context{}.WithBlockHeight(10), txb.GetTx())
	t.Logf("no panic: fee=%s prio=%d err=%v", fee, prio, err)
}
