package cosmoslane_test

import (
	"testing"

	sdkmath "cosmossdk.io/math"
	sdk "github.com/cosmos/cosmos-sdk/types"
	vestingtypes "github.com/cosmos/cosmos-sdk/x/auth/vesting/types"

	chainapp "github.com/EscanBE/evermint/v12/app"
	"github.com/EscanBE/evermint/v12/app/antedl/cosmoslane"
	"github.com/EscanBE/evermint/v12/constants"
	vauthkeeper "github.com/EscanBE/evermint/v12/x/vauth/keeper"
)

// Replay of CLVestingMessagesAuthorizationDecorator.AnteHandle#panic.only_if:callpanic:MustAccAddressFromBech32@1:
// a vesting-account-creation message whose to_address is not bech32 panics inside the ante handler
// (x/auth/vesting messages have no ValidateBasic in cosmos-sdk v0.50, so nothing rejects it earlier).
func TestReplayVestingInvalidToAddressPanics(t *testing.T) {
	enc := chainapp.RegisterEncodingConfig()
	txb := enc.TxConfig.NewTxBuilder()
	msg := &vestingtypes.MsgCreateVestingAccount{
		FromAddress: sdk.AccAddress(make([]byte, 20)).String(),
		ToAddress:   "not-a-bech32-address",
		Amount:      sdk.NewCoins(sdk.NewCoin(constants.BaseDenom, sdkmath.NewInt(1))),
		EndTime:     1,
	}
	if err := txb.SetMsgs(msg); err != nil {
		t.Fatal(err)
	}
	tx := txb.GetTx()
	dec := cosmoslane.NewCosmosLaneVestingMessagesAuthorizationDecorator(vauthkeeper.Keeper{})
	next := func(ctx sdk.Context, tx sdk.Tx, simulate bool) (sdk.Context, error) { return ctx, nil }
	defer func() {
		r := recover()
		t.Logf("recovered: %v", r)
		if r == nil {
			t.Fatal("expected a panic")
		}
	}()
	_, err := dec.AnteHandle(sdk.Context{}, tx, false, next)
	t.Logf("no panic: err=%v", err)
}
