package duallane_test

import (
	"math/big"
	"testing"

	sdkmath "cosmossdk.io/math"
	sdk "github.com/cosmos/cosmos-sdk/types"
	"github.com/ethereum/go-ethereum/common"
	ethtypes "github.com/ethereum/go-ethereum/core/types"

	chainapp "github.com/EscanBE/evermint/v12/app"
	"github.com/EscanBE/evermint/v12/app/antedl/duallane"
	"github.com/EscanBE/evermint/v12/constants"
	evmtypes "github.com/EscanBE/evermint/v12/x/evm/types"
	feemarkettypes "github.com/EscanBE/evermint/v12/x/feemarket/types"
)

type ekMock struct{}

func (ekMock) GetParams(ctx sdk.Context) evmtypes.Params {
	p := evmtypes.DefaultParams()
	p.EvmDenom = constants.BaseDenom
	return p
}

type fkMock struct{ baseFee sdkmath.Int }

func (f fkMock) GetParams(ctx sdk.Context) feemarkettypes.Params {
	p := feemarkettypes.DefaultParams()
	p.BaseFee = f.baseFee
	p.MinGasPrice = sdkmath.LegacyZeroDec()
	return p
}

// Replay of the panic site EthereumTxFeeChecker$1#callpanic:getTxPriority (index out of range on an empty coin set):
// dynamic-fee tx with tip cap 0 while the base fee is 0 -> effective fee 0 -> sdk.NewCoins drops the zero coin -> fees[0] panics.
func TestReplayZeroEffectiveFeePanics(t *testing.T) {
	enc := chainapp.RegisterEncodingConfig()
	ethTx := ethtypes.NewTx(&ethtypes.DynamicFeeTx{
		ChainID: big.NewInt(1), Nonce: 0, GasTipCap: big.NewInt(0), GasFeeCap: big.NewInt(5), Gas: 21000,
		To: &common.Address{}, Value: big.NewInt(0),
	})
	msg := &evmtypes.MsgEthereumTx{}
	if err := msg.FromEthereumTx(ethTx, common.Address{1}); err != nil {
		t.Fatal(err)
	}
	txb := enc.TxConfig.NewTxBuilder()
	if err := txb.SetMsgs(msg); err != nil {
		t.Fatal(err)
	}
	// declared fee = fee cap * gas: exactly what DLValidateBasicDecorator demands
	txb.SetFeeAmount(sdk.NewCoins(sdk.NewCoin(constants.BaseDenom, sdkmath.NewInt(5*21000))))
	txb.SetGasLimit(21000)
	tx := txb.GetTx()

	ctx := sdk.Context{}.WithBlockHeight(10)
	fc := duallane.EthereumTxFeeChecker(ekMock{}, fkMock{baseFee: sdkmath.ZeroInt()})
	defer func() {
		r := recover()
		t.Logf("recovered: %v", r)
		if r == nil {
			t.Fatal("expected the index-out-of-range panic")
		}
	}()
	fee, prio, err := fc(ctx, tx)
	t.Logf("no panic: fee=%s prio=%d err=%v", fee, prio, err)
}
