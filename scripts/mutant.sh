#!/bin/sh
# usage: scripts/mutant.sh <patch.diff> <Cxx> [extra govc args]
# Runs the property check with the patch applied IN MEMORY (go/packages overlay): /repo is not modified.
# Replays are disabled for overlays of non-test files? No: replays run on /repo itself, so a mutant's counterexample
# replays against the unmutated code (expected: not reproduced); mutants are judged by the failed obligation.
set -e
PATCH=$(readlink -f "$1"); PROP=$2; shift 2
ROOT=$(cd "$(dirname "$0")/.." && pwd)
TMP=$(mktemp -d /tmp/govc-mutant-XXXXXX)
trap 'rm -rf "$TMP"' EXIT
ARGS=""
# a path that starts with @fork/ names a file of the go-ethereum fork in the module cache (bodies verified through depspecs)
FORK=$(cd "${VERIF_REPO:-/repo}" && GOFLAGS=-mod=mod go list -m -f '{{.Dir}}' github.com/ethereum/go-ethereum 2>/dev/null)
src() { case "$1" in @fork/*) echo "$FORK/${1#@fork/}";; *) echo "${VERIF_REPO:-/repo}/$1";; esac; }
for f in $(grep '^+++ b/' "$PATCH" | sed 's|^+++ b/||'); do
  mkdir -p "$TMP/$(dirname $f)"
  if [ -f "$(src $f)" ]; then cp "$(src $f)" "$TMP/$f"; chmod u+w "$TMP/$f"; fi
done
(cd "$TMP" && patch -s -p1 < "$PATCH")
for f in $(grep '^+++ b/' "$PATCH" | sed 's|^+++ b/||'); do
  ARGS="$ARGS --overlay $(src $f)=$TMP/$f"
done
VERIF_NO_REPLAY=1 VERIF_ROOT="${VERIF_ROOT_OVERRIDE:-$ROOT}" "$ROOT/bin/govc" check --repo "${VERIF_REPO:-/repo}" --property "$PROP" --evidence "$TMP/evidence.json" --replays "$TMP/replays" $ARGS "$@"
