#!/usr/bin/env python3
"""Regenerates MANIFEST.json from claims.json (per-property claim text) and properties.jsonl."""
import json, os, subprocess
root = os.path.dirname(os.path.dirname(os.path.abspath(__file__)))
props = [json.loads(l) for l in open(os.path.join(root, 'properties.jsonl'))]
claims = json.load(open(os.path.join(root, 'claims.json')))
baseline = json.load(open('/root/.vp/BASELINE.json'))['cmd']
try:
    commits = subprocess.check_output(['git', '-C', '/repo', 'log', '--format=%h %s', '--grep=^verif:'], text=True).strip().split('\n')
    commits = [c.split()[0] for c in commits if c]
except Exception:
    commits = []
checks, na = [], []
for p in props:
    pid = p['id']
    c = claims.get(pid)
    if c and c.get('claimed'):
        checks.append({
            "property_id": pid,
            "quick_cmd": f"./check {pid} quick",
            "thorough_cmd": f"./check {pid} thorough",
            "evidence_file": f"/verif/evidence/{pid}.json",
            "replay_cmd_template": "./replay_cmd {path}",
            "engine": "govc",
            "level_claimed": {"category": "proof", "text": c['text'], "design_ref": c.get('design_ref', 'DESIGN.md §7 ' + pid)},
            "level_note": c['note'],
            "technique": c.get('technique', 'function contracts (requires/ensures/modifies/panics, loop invariants) on the real code; weakest-precondition VCs over go/ssa discharged by z3/z3-new/cvc5'),
        })
    else:
        na.append({"property_id": pid, "reason": (c or {}).get('reason', 'contracts not completed: no obligation set for this property is discharged and stable yet')})
m = {
 "version": 1,
 "setup_cmd": "cd /verif/engine && GOFLAGS=-mod=mod GOPROXY=off GOSUMDB=off GOTOOLCHAIN=local go build -o /verif/bin/govc ./cmd/govc",
 "hooks": {"guard": "verif", "enable": "-tags=verif (go/packages BuildFlags); the only hooks are comment-only files verif_contracts.go",
           "baseline_off_cmd": baseline, "source_commits": commits, "add_only": True},
 "engines": [{"name": "govc", "path": "/verif/engine", "serves_properties": [c['property_id'] for c in checks],
              "kind_free_text": "self-written deductive verifier: contracts as //@ comments (guarded files in /repo, prelude in /verif/prelude, depspecs for verified dependency bodies); weakest-precondition VC generation over go/ssa of /repo's working tree; portfolio z3 4.8.12 / z3 5.1.0 / cvc5 1.0.3; counterexamples replayed on the compiled code through go test -overlay"}],
 "checks": checks,
 "notes": "One technique family only (contract-based deductive verification). See DESIGN.md. Known findings: known_findings.json.",
 "not_applicable": na,
}
json.dump(m, open(os.path.join(root, 'MANIFEST.json'), 'w'), indent=1)
print("checks:", [c['property_id'] for c in checks])
