# ---- macros -------------------------------------------------------------------------------------
def ID(ctx, k):
    return f'kvId(layer({ctx}), payload({k}.storeKey))'
def HAS(ctx, k): return f'kvHas[{ID(ctx,k)}]'
def VAL(ctx, k): return f'kvVal[{ID(ctx,k)}]'
def ALLOW(ctx, k, o, s): return f'cpcAllow({HAS(ctx,k)}, {VAL(ctx,k)}, {o}, {s})'
def STORE_SAME(ctx, k): return f'({HAS(ctx,k)} == old({HAS(ctx,k)}) && {VAL(ctx,k)} == old({VAL(ctx,k)}))'
def STORE_EXCEPT(ctx, k, key):
    return f'({HAS(ctx,k)} == old({HAS(ctx,k)})[{key} := {HAS(ctx,k)}[{key}]] && {VAL(ctx,k)} == old({VAL(ctx,k)})[{key} := {VAL(ctx,k)}[{key}]])'
def CACHE_FACTS(c):
    return f'({c}.cacheErc20Metadata.MinDenom == erc20Denom({c}.metadata.TypedMeta) && {c}.cacheErc20Metadata.Symbol == jsonErc20Symbol(strBytes({c}.metadata.TypedMeta)) && {c}.cacheErc20Metadata.Decimals == jsonErc20Decimals(strBytes({c}.metadata.TypedMeta)))'
def CACHE_INV(c): return f'({c}.cacheErc20Metadata != nil ==> {CACHE_FACTS(c)})'
def DENOM(c): return f'erc20Denom({c}.metadata.TypedMeta)'
ZERO = 'zero(type(common.Address))'
LOGVARS = ['sdbLogCount', 'sdbLogAddr', 'sdbLogNTopics', 'sdbLogT0', 'sdbLogT1', 'sdbLogT2', 'sdbLogT3', 'sdbLogData', 'sdbOther']
def LOGMOD(p): return ', '.join(f'{v}[payload({p})]' for v in LOGVARS)
def LOG_ONE(p, addr, t0, t1, t2, data):
    n = f'old(sdbLogCount[payload({p})])'
    def upd(v, x): return f'{v}[payload({p})] == old({v}[payload({p})])[{n} := {x}]'
    return '(' + ' && '.join([f'sdbLogCount[payload({p})] == {n} + 1', upd('sdbLogAddr', addr), upd('sdbLogNTopics', '3'), upd('sdbLogT0', t0), upd('sdbLogT1', t1), upd('sdbLogT2', t2), upd('sdbLogData', data)]) + ')'
def LOG_NONE(p):
    return '(' + ' && '.join(f'{v}[payload({p})] == old({v}[payload({p})])' for v in LOGVARS[:-1]) + ')'
TRANSFER_SIG = 'common.HexToHash("0xddf252ad1be2c89b69c2b068fc378daa952ba7f163c4a11628f55a4df523b3ef")'
APPROVAL_SIG = 'common.HexToHash("0x8c5be1e5ebec7d5bd14f71427d1e84f3dd0314c0f7b2291e5b200ac8c7c3b925")'
def TOPIC(a): return f'hashOfBytes(addrBytes({a}))'
def BE32(x): return f'hashBytes(hashOfBytes(beBytes({x})))'
def BANKMOD(ctx): return f'bankBal[layer({ctx})], bankSupply[layer({ctx})], authVersion[layer({ctx})], evlog[payload({ctx}.EventManager())]'
def MOVES(ctx, c, frm, to, x, burn):
    """pointwise balance law; burn: no credit"""
    d = DENOM(c)
    credit = '' if burn else f' + ((a == addrBytes({to}) && d == {d} && {frm} != {to}) ? {x} : 0)'
    return f'(forall a bytes, d string :: bankBal[layer({ctx})][a][d] == old(bankBal[layer({ctx})][a][d]) - ((a == addrBytes({frm}) && d == {d} && {frm} != {to}) ? {x} : 0){credit})'
def SUPPLY_BURN(ctx, c, frm, to, x):
    return f'(forall d string :: bankSupply[layer({ctx})][d] == old(bankSupply[layer({ctx})][d]) - ((d == {DENOM(c)} && {frm} != {to}) ? {x} : 0))'
def SUPPLY_SAME(ctx): return f'bankSupply[layer({ctx})] == old(bankSupply[layer({ctx})])'
def BAL_SAME(ctx): return f'bankBal[layer({ctx})] == old(bankBal[layer({ctx})])'

# ---- allowance table ------------------------------------------------------------------------------
w('''// ---------------------------------------------------------------------------------------------
// precompiles_erc20.go — allowance table (C10). View: cpcAllow(kvHas[id], kvVal[id], owner, spender) with
// id = kvId(layer(ctx), payload(k.storeKey)), the module store seen through ctx's layer (absent entry == 0).
// ---------------------------------------------------------------------------------------------
''')
w('//@ func (k Keeper) GetErc20CpcAllowance(ctx sdk.Context, owner, spender common.Address) *big.Int')
w('//@   requires k.storeKey != nil')
w('//@   modifies nothing')
w(f'//@   ensures[C10.allow_get] result != nil && fresh(result) && bigval[result] == {ALLOW("ctx","k","owner","spender")}')
w('//@   panics never')
w()
w('// Sets exactly one entry: the store is unchanged except at the key of (owner, spender); a zero allowance deletes the entry.')
w('//@ func (k Keeper) SetErc20CpcAllowance(ctx sdk.Context, owner, spender common.Address, allowance *big.Int)')
w('//@   requires k.storeKey != nil && allowance != nil')
w(f'//@   modifies {HAS("ctx","k")}, {VAL("ctx","k")}')
w(f'//@   ensures[C10.allow_set] {ALLOW("ctx","k","owner","spender")} == bigval[allowance]')
w(f'//@   ensures[C10.allow_set_frame] {HAS("ctx","k")} == old({HAS("ctx","k")})[allowKeyB(owner, spender) := bigval[allowance] != 0] && {VAL("ctx","k")} == old({VAL("ctx","k")})[allowKeyB(owner, spender) := {VAL("ctx","k")}[allowKeyB(owner, spender)]]')
w('//@   panics[C10.allow_set_range] iff bigval[allowance] < 0 || bigval[allowance] >= pow2(256)')
w()

# ---- contract object ------------------------------------------------------------------------------
w('''// ---------------------------------------------------------------------------------------------
// precompiles_erc20.go — the ERC-20 contract object and its typed metadata
// ---------------------------------------------------------------------------------------------

// D: the bank denomination of an ERC-20 precompile = "min_denom" of the JSON document in its metadata record
//@ ghost func erc20Denom(typedMeta string) string = jsonErc20MinDenom(strBytes(typedMeta))

// GetErc20Metadata decodes the typed metadata (cached after the first call). Object invariant of the cache
// (established by NewErc20CustomPrecompiledContract: cache == nil; preserved by every method): a cached record is the
// decoded one.
//@ func (m *erc20CustomPrecompiledContract) GetErc20Metadata() (meta cpctypes.Erc20CustomPrecompiledContractMeta)
//@   requires m != nil''')
w(f'//@   requires {CACHE_INV("m")}')
w('//@   modifies m.cacheErc20Metadata')
w('//@   ensures[C10.denom_of_metadata] meta.MinDenom == erc20Denom(m.metadata.TypedMeta) && meta.Symbol == jsonErc20Symbol(strBytes(m.metadata.TypedMeta)) && meta.Decimals == jsonErc20Decimals(strBytes(m.metadata.TypedMeta))')
w(f'//@   ensures m.cacheErc20Metadata != nil && {CACHE_FACTS("m")}')
w('//@   panics only_if !jsonErc20Ok(strBytes(m.metadata.TypedMeta))')
w()

# ---- spendAllowance / transfer -------------------------------------------------------------------
E = 'erc20CustomPrecompiledContractRwTransferFrom'
K = 'e.contract.keeper'
A0 = f'old({ALLOW("ctx", K, "owner", "spender")})'
A1 = ALLOW("ctx", K, "owner", "spender")
w('''// spendAllowance (C10): an unlimited allowance (2^256-1) is never decremented; any other is reduced by exactly the
// amount or, when insufficient, the call fails with the table untouched. Nothing but the entry (owner, spender) changes.''')
w(f'//@ func (e {E}) spendAllowance(ctx sdk.Context, owner, spender common.Address, amount *big.Int) (err error)')
w(f'//@   requires e.contract != nil && {K}.storeKey != nil && amount != nil && bigval[amount] >= 0')
w(f'//@   modifies {HAS("ctx",K)}, {VAL("ctx",K)}')
w(f'//@   ensures[C10.infinite_kept] {A0} == pow2(256) - 1 ==> (err == nil && {STORE_SAME("ctx",K)})')
w(f'//@   ensures[C10.spend_exact] ({A0} != pow2(256) - 1 && bigval[amount] <= {A0}) ==> (err == nil && {A1} == {A0} - bigval[amount])')
w(f'//@   ensures[C10.spend_insufficient] ({A0} != pow2(256) - 1 && bigval[amount] > {A0}) ==> (err != nil && {STORE_SAME("ctx",K)})')
w(f'//@   ensures[C10.spend_frame] {STORE_EXCEPT("ctx",K,"allowKeyB(owner, spender)")}')
w(f'//@   panics[C10.spend_panics] only_if {A1} >= pow2(256)')
w()
C = 'e.contract'
X = 'bigval[amount]'
w('''// transfer (C10): with x = amount, D = the contract's denomination, moved = (from == to ? 0 : x):
//  to != 0: from loses moved, to gains moved, supply unchanged;  to == 0 (burn): from loses moved, supply shrinks by moved;
//  every other (address, denomination) is unchanged; exactly one Transfer log is appended; the allowance table is untouched
//  (frame). A normal return with err == nil implies x <= balance(from).''')
w(f'//@ func (e {E}) transfer(ctx sdk.Context, from, to common.Address, amount *big.Int, contractAddr common.Address, stateDB corevm.StateDB) (ret []byte, err error)')
w(f'//@   requires e.contract != nil && {K}.bankKeeper != nil && stateDB != nil && amount != nil')
w(f'//@   requires {CACHE_INV(C)}')
w(f'//@   modifies {C}.cacheErc20Metadata, {BANKMOD("ctx")}, {LOGMOD("stateDB")}')
w(f'//@   ensures[C10.transfer_needs_balance] err == nil ==> (0 <= {X} && {X} <= old(bankBal[layer(ctx)][addrBytes(from)][{DENOM(C)}]))')
w(f'//@   ensures[C10.transfer_moves] (err == nil && to != {ZERO}) ==> {MOVES("ctx", C, "from", "to", X, False)}')
w(f'//@   ensures[C10.transfer_supply_kept] (err == nil && to != {ZERO}) ==> {SUPPLY_SAME("ctx")}')
w(f'//@   ensures[C10.burn_moves] (err == nil && to == {ZERO}) ==> {MOVES("ctx", C, "from", "to", X, True)}')
w(f'//@   ensures[C10.burn_supply] (err == nil && to == {ZERO}) ==> {SUPPLY_BURN("ctx", C, "from", "to", X)}')
w(f'//@   ensures[C10.transfer_log] err == nil ==> {LOG_ONE("stateDB", "contractAddr", TRANSFER_SIG, TOPIC("from"), TOPIC("to"), BE32(X))}')
w(f'//@   ensures[C10.transfer_fail_no_log] err != nil ==> {LOG_NONE("stateDB")}')
w('//@   ensures[C10.transfer_returns_true] err == nil ==> (len(ret) == 32 && ret[31] == 1)')
w(f'//@   ensures {C}.cacheErc20Metadata != nil && {CACHE_FACTS(C)}')
w(f'//@   panics[C10.transfer_panics] only_if !jsonErc20Ok(strBytes({C}.metadata.TypedMeta)) || bigval[amount] < 0 || !denomValid({DENOM(C)}) || (to == {ZERO} && (!modExists(cpctypes.ModuleName) || !modCanBurn(cpctypes.ModuleName)))')
w()

# ---- Execute of the state-changing executors -------------------------------------------------------
IN = 'bytes(input)'
CALLER = 'caller.Address()'
CTX = 'env.ctx'
SDB = 'env.evm.StateDB'
def exec_header(t, cexpr, extra_req=''):
    w(f'//@ func (e {t}) Execute(caller corevm.ContractRef, contractAddr common.Address, input []byte, env cpcExecutorEnv) (ret []byte, err error)')
    w(f'//@   requires caller != nil && env.evm != nil && {SDB} != nil && {cexpr} != nil && {cexpr}.keeper.storeKey != nil && {cexpr}.keeper.bankKeeper != nil{extra_req}')
    w(f'//@   requires {CACHE_INV(cexpr)}')

w('''// ---------------------------------------------------------------------------------------------
// Execute of the state-changing ERC-20 methods (C10). c = caller.Address(); arguments are the ABI-decoded call data
// (abiArgAddr / abiArgUint of bytes(input): x/cpc/abi/verif_contracts.go); D = erc20Denom(metadata.TypedMeta).
// An error return states nothing about the layer (the interpreter reverts it: go-ethereum Call, assumed).
// ---------------------------------------------------------------------------------------------
''')
# transferFrom
C = 'e.contract'; K = f'{C}.keeper'
FROM = f'abiArgAddr({IN}, 0)'; TO = f'abiArgAddr({IN}, 1)'; X = f'abiArgUint({IN}, 2)'
A0 = f'old({ALLOW(CTX, K, FROM, CALLER)})'; A1 = ALLOW(CTX, K, FROM, CALLER)
w('// transferFrom(from, to, x): from and to are non-zero; the caller is from, or the allowance (from -> caller) is unlimited or')
w('// covers x and is reduced by exactly x; then the transfer law of `transfer`.')
exec_header(E, C)
w(f'//@   modifies {C}.cacheErc20Metadata, {HAS(CTX,K)}, {VAL(CTX,K)}, {BANKMOD(CTX)}, {LOGMOD(SDB)}')
w(f'//@   ensures[C10.tf_nonzero_parties] err == nil ==> ({FROM} != {ZERO} && {TO} != {ZERO})')
w(f'//@   ensures[C10.caller_or_allowance] (err == nil && {FROM} != {CALLER}) ==> (({A0} == pow2(256) - 1 && {STORE_SAME(CTX,K)}) || ({A0} != pow2(256) - 1 && {X} <= {A0} && {A1} == {A0} - {X}))')
w(f'//@   ensures[C10.tf_own_coins_no_allowance] (err == nil && {FROM} == {CALLER}) ==> {STORE_SAME(CTX,K)}')
w(f'//@   ensures[C10.tf_allowance_frame] {STORE_EXCEPT(CTX,K,f"allowKeyB({FROM}, {CALLER})")}')
w(f'//@   ensures[C10.tf_needs_balance] err == nil ==> {X} <= old(bankBal[layer({CTX})][addrBytes({FROM})][{DENOM(C)}])')
w(f'//@   ensures[C10.tf_moves] err == nil ==> ({MOVES(CTX, C, FROM, TO, X, False)} && {SUPPLY_SAME(CTX)})')
w(f'//@   ensures[C10.tf_log] err == nil ==> {LOG_ONE(SDB, "contractAddr", TRANSFER_SIG, TOPIC(FROM), TOPIC(TO), BE32(X))}')
w('//@   ensures[C10.tf_returns_true] err == nil ==> (len(ret) == 32 && ret[31] == 1)')
w(f'//@   ensures {C}.cacheErc20Metadata != nil ==> {CACHE_FACTS(C)}')
w(f'//@   panics[C10.tf_panics] only_if len(input) < 4 || !abiSelectorOk("transferFrom", {IN}) || !jsonErc20Ok(strBytes({C}.metadata.TypedMeta)) || !denomValid({DENOM(C)}) || {ALLOW(CTX, K, FROM, CALLER)} >= pow2(256)')
w()
# transfer
T = 'erc20CustomPrecompiledContractRwTransfer'
C = 'e.transferFrom.contract'; K = f'{C}.keeper'
TO = f'abiArgAddr({IN}, 0)'; X = f'abiArgUint({IN}, 1)'
w('// transfer(to, x): moves the CALLER\'s coins only; the allowance table is untouched (frame).')
exec_header(T, C)
w(f'//@   modifies {C}.cacheErc20Metadata, {BANKMOD(CTX)}, {LOGMOD(SDB)}')
w(f'//@   ensures[C10.t_nonzero_parties] err == nil ==> ({CALLER} != {ZERO} && {TO} != {ZERO})')
w(f'//@   ensures[C10.t_needs_balance] err == nil ==> {X} <= old(bankBal[layer({CTX})][addrBytes({CALLER})][{DENOM(C)}])')
w(f'//@   ensures[C10.t_moves] err == nil ==> ({MOVES(CTX, C, CALLER, TO, X, False)} && {SUPPLY_SAME(CTX)})')
w(f'//@   ensures[C10.t_log] err == nil ==> {LOG_ONE(SDB, "contractAddr", TRANSFER_SIG, TOPIC(CALLER), TOPIC(TO), BE32(X))}')
w('//@   ensures[C10.t_returns_true] err == nil ==> (len(ret) == 32 && ret[31] == 1)')
w(f'//@   ensures {C}.cacheErc20Metadata != nil ==> {CACHE_FACTS(C)}')
w(f'//@   panics[C10.t_panics] only_if len(input) < 4 || !abiSelectorOk("transfer", {IN}) || !jsonErc20Ok(strBytes({C}.metadata.TypedMeta)) || !denomValid({DENOM(C)})')
w()
# approve
T = 'erc20CustomPrecompiledContractRwApprove'
C = 'e.contract'; K = f'{C}.keeper'
SP = f'abiArgAddr({IN}, 0)'; V = f'abiArgUint({IN}, 1)'
KEY = f'allowKeyB({CALLER}, {SP})'
w('// approve(spender, value): sets exactly the entry (caller, spender) to value; one Approval log; bank untouched (frame).')
w(f'//@ func (e {T}) Execute(caller corevm.ContractRef, contractAddr common.Address, input []byte, env cpcExecutorEnv) (ret []byte, err error)')
w(f'//@   requires caller != nil && env.evm != nil && {SDB} != nil && {C} != nil && {K}.storeKey != nil')
w(f'//@   modifies {HAS(CTX,K)}, {VAL(CTX,K)}, {LOGMOD(SDB)}')
w(f'//@   ensures[C10.approve_nonzero_parties] err == nil ==> ({CALLER} != {ZERO} && {SP} != {ZERO})')
w(f'//@   ensures[C10.approve_sets] err == nil ==> ({ALLOW(CTX, K, CALLER, SP)} == {V} && {HAS(CTX,K)} == old({HAS(CTX,K)})[{KEY} := {V} != 0])')
w(f'//@   ensures[C10.approve_frame] {STORE_EXCEPT(CTX,K,KEY)}')
w(f'//@   ensures[C10.approve_log] err == nil ==> {LOG_ONE(SDB, "contractAddr", APPROVAL_SIG, TOPIC(CALLER), TOPIC(SP), BE32(V))}')
w('//@   ensures[C10.approve_returns_true] err == nil ==> bytes(ret) == abiEncBool(true)')
w(f'//@   panics[C10.approve_panics] only_if len(input) < 4 || !abiSelectorOk("approve", {IN})')
w()
# burnFrom
T = 'erc20CustomPrecompiledContractRwBurnFrom'
C = 'e.transferFrom.contract'; K = f'{C}.keeper'
FROM = f'abiArgAddr({IN}, 0)'; X = f'abiArgUint({IN}, 1)'
A0 = f'old({ALLOW(CTX, K, FROM, CALLER)})'; A1 = ALLOW(CTX, K, FROM, CALLER)
w('// burnFrom(address, x): like transferFrom to the zero address: allowance rule, then the burn law.')
exec_header(T, C)
w(f'//@   modifies {C}.cacheErc20Metadata, {HAS(CTX,K)}, {VAL(CTX,K)}, {BANKMOD(CTX)}, {LOGMOD(SDB)}')
w(f'//@   ensures[C10.bf_nonzero_holder] err == nil ==> {FROM} != {ZERO}')
w(f'//@   ensures[C10.bf_caller_or_allowance] (err == nil && {FROM} != {CALLER}) ==> (({A0} == pow2(256) - 1 && {STORE_SAME(CTX,K)}) || ({A0} != pow2(256) - 1 && {X} <= {A0} && {A1} == {A0} - {X}))')
w(f'//@   ensures[C10.bf_own_coins_no_allowance] (err == nil && {FROM} == {CALLER}) ==> {STORE_SAME(CTX,K)}')
w(f'//@   ensures[C10.bf_allowance_frame] {STORE_EXCEPT(CTX,K,f"allowKeyB({FROM}, {CALLER})")}')
w(f'//@   ensures[C10.bf_needs_balance] err == nil ==> {X} <= old(bankBal[layer({CTX})][addrBytes({FROM})][{DENOM(C)}])')
w(f'//@   ensures[C10.bf_burns] err == nil ==> ({MOVES(CTX, C, FROM, ZERO, X, True)} && {SUPPLY_BURN(CTX, C, FROM, ZERO, X)})')
w(f'//@   ensures[C10.bf_log] err == nil ==> {LOG_ONE(SDB, "contractAddr", TRANSFER_SIG, TOPIC(FROM), TOPIC(ZERO), BE32(X))}')
w(f'//@   ensures {C}.cacheErc20Metadata != nil ==> {CACHE_FACTS(C)}')
w(f'//@   panics[C10.bf_panics] only_if len(input) < 4 || !abiSelectorOk("burnFrom", {IN}) || !jsonErc20Ok(strBytes({C}.metadata.TypedMeta)) || !denomValid({DENOM(C)}) || !modExists(cpctypes.ModuleName) || !modCanBurn(cpctypes.ModuleName) || {ALLOW(CTX, K, FROM, CALLER)} >= pow2(256)')
w()
# burn
T = 'erc20CustomPrecompiledContractRwBurn'
X = f'abiArgUint({IN}, 0)'
w('// burn(x): destroys the CALLER\'s coins only; the allowance table is untouched (frame).')
exec_header(T, C)
w(f'//@   modifies {C}.cacheErc20Metadata, {BANKMOD(CTX)}, {LOGMOD(SDB)}')
w(f'//@   ensures[C10.b_nonzero_holder] err == nil ==> {CALLER} != {ZERO}')
w(f'//@   ensures[C10.b_needs_balance] err == nil ==> {X} <= old(bankBal[layer({CTX})][addrBytes({CALLER})][{DENOM(C)}])')
w(f'//@   ensures[C10.b_burns] err == nil ==> ({MOVES(CTX, C, CALLER, ZERO, X, True)} && {SUPPLY_BURN(CTX, C, CALLER, ZERO, X)})')
w(f'//@   ensures[C10.b_log] err == nil ==> {LOG_ONE(SDB, "contractAddr", TRANSFER_SIG, TOPIC(CALLER), TOPIC(ZERO), BE32(X))}')
w(f'//@   ensures {C}.cacheErc20Metadata != nil ==> {CACHE_FACTS(C)}')
w(f'//@   panics[C10.b_panics] only_if len(input) < 4 || !abiSelectorOk("burn", {IN}) || !jsonErc20Ok(strBytes({C}.metadata.TypedMeta)) || !denomValid({DENOM(C)}) || !modExists(cpctypes.ModuleName) || !modCanBurn(cpctypes.ModuleName)')
w()

GHOST_WORLD_E = ['bankBal', 'bankSupply', 'authVersion', 'evlog', 'kvHas', 'kvVal', 'acctSeq', 'acctExists', 'stakingVersion', 'distVersion'] + LOGVARS[:-1]
WORLD_SAME_EARLY = '(' + ' && '.join(f'{g} == old({g})' for g in GHOST_WORLD_E) + ')'
# ---- views ------------------------------------------------------------------------------------------
w('''// ---------------------------------------------------------------------------------------------
// Execute of the read-only ERC-20 methods (C10 views, C12 clause (b)): the frame is the decode cache of the contract
// object only — no store, bank, log or event component is written.
// ---------------------------------------------------------------------------------------------
''')
C = 'e.contract'; K = f'{C}.keeper'
def ro(t, name, req, ens, cache=True, panics=''):
    w(f'//@ func (e {t}) Execute(caller corevm.ContractRef, contractAddr common.Address, input []byte, env cpcExecutorEnv) (ret []byte, err error)')
    w(f'//@   requires {C} != nil{req}')
    if cache:
        w(f'//@   requires {CACHE_INV(C)}')
        w(f'//@   modifies {C}.cacheErc20Metadata')
    else:
        w('//@   modifies nothing')
    w(f'//@   ensures[C10.view_{name},C12.ro_{name}_writes_nothing] err == nil ==> {ens}')
    w(f'//@   ensures[C12.ro_world_unchanged] {WORLD_SAME_EARLY}')
    if cache:
        w(f'//@   ensures {C}.cacheErc20Metadata != nil ==> {CACHE_FACTS(C)}')
    w(f'//@   panics[C10.view_{name}_panics] only_if len(input) < 4 || !abiSelectorOk("{name}", {IN}){panics}')
    w()
JOK = f' || !jsonErc20Ok(strBytes({C}.metadata.TypedMeta))'
ro('erc20CustomPrecompiledContractRoName', 'name', '', f'bytes(ret) == abiEncString({C}.metadata.Name)', cache=False)
ro('erc20CustomPrecompiledContractRoSymbol', 'symbol', '', f'bytes(ret) == abiEncString(jsonErc20Symbol(strBytes({C}.metadata.TypedMeta)))', panics=JOK)
ro('erc20CustomPrecompiledContractRoDecimals', 'decimals', '', f'bytes(ret) == abiEncUint(jsonErc20Decimals(strBytes({C}.metadata.TypedMeta)))', panics=JOK)
ro('erc20CustomPrecompiledContractRoTotalSupply', 'totalSupply', f' && {K}.bankKeeper != nil', f'bytes(ret) == abiEncUint(bankSupply[layer({CTX})][{DENOM(C)}])', panics=JOK)
ro('erc20CustomPrecompiledContractRoBalanceOf', 'balanceOf', f' && {K}.bankKeeper != nil', f'bytes(ret) == abiEncUint(bankBal[layer({CTX})][addrBytes(abiArgAddr({IN}, 0))][{DENOM(C)}])', panics=JOK)
ro('erc20CustomPrecompiledContractRoAllowance', 'allowance', f' && {K}.storeKey != nil', f'bytes(ret) == abiEncUint({ALLOW(CTX, K, f"abiArgAddr({IN}, 0)", f"abiArgAddr({IN}, 1)")})', cache=False)

# ---- wiring into the fork (C12) -----------------------------------------------------------------------
WORLD = 'bankBal, bankSupply, authVersion, evlog, kvHas, kvVal, sdbLogCount, sdbLogAddr, sdbLogNTopics, sdbLogT0, sdbLogT1, sdbLogT2, sdbLogT3, sdbLogData, sdbOther, sdbBal, sdbNonce, sdbSupply'
w('''// ---------------------------------------------------------------------------------------------
// precompiles.go — wiring of the executors into the fork's method table (C12)
// ---------------------------------------------------------------------------------------------
//@ import evmvm "github.com/EscanBE/evermint/v12/x/evm/vm"

// Interface-level summaries (TRUSTED; justified by the per-implementation contracts above: every implementation of
// ReadOnly / RequireGas / Method4BytesSignatures returns a constant of the executor object, which is never mutated
// after construction) — a function of the executor value.
//@ func (x ExtendedCustomPrecompiledContractMethodExecutorI) ReadOnly() bool
//@   assumed
//@   pure
//@   panics never
//@ func (x ExtendedCustomPrecompiledContractMethodExecutorI) RequireGas() uint64
//@   assumed
//@   pure
//@   panics never
//@ func (x ExtendedCustomPrecompiledContractMethodExecutorI) Method4BytesSignatures() []byte
//@   assumed
//@   pure
//@   ensures len(result) == 4
//@   panics never

// Ghost record of the call that reaches an executor: how often, and with which environment.
//@ ghost var cpcInnerCalls map[int]int
//@ ghost var cpcInnerCtx map[int]sdk.Context
//@ ghost var cpcInnerEvm map[int]ref
//@ ghost var cpcInnerExecutor map[int]ref
//@ ghost var cpcInnerInput map[int]bytes''')
w('//@ func (x ExtendedCustomPrecompiledContractMethodExecutorI) Execute(caller corevm.ContractRef, contractAddress common.Address, input []byte, env cpcExecutorEnv) (ret []byte, err error)')
w('//@   assumed')
w(f'//@   modifies cpcInnerCalls, cpcInnerCtx, cpcInnerEvm, cpcInnerExecutor, cpcInnerInput, {WORLD}')
w('//@   ensures cpcInnerCalls[0] == old(cpcInnerCalls[0]) + 1 && cpcInnerCtx[0] == env.ctx && cpcInnerEvm[0] == env.evm && cpcInnerExecutor[0] == payload(x) && cpcInnerInput[0] == bytes(input)')
w('//@   panics any')
w('''
// the StateDB's current (innermost, revertible) context: x/evm/vm cStateDb.GetCurrentContext returns d.currentCtx
// (a component of the StateDB object's state: it changes with Snapshot / RevertToSnapshot)
//@ ghost var sdbCurCtx map[ref]sdk.Context
//@ func (d evmvm.CStateDB) GetCurrentContext() sdk.Context
//@   assumed
//@   modifies nothing
//@   ensures result == sdbCurCtx[payload(d)]
//@   panics never

// NewCustomPrecompiledContractMethod passes the executor's declarations through UNCHANGED (C12: the fork gates on exactly
// the ReadOnly flag the executor declares and charges exactly the gas it declares) and wraps the executor.
// (helper cpc2: no precondition — a nil executor panics at its first method call, which is what the clause says; callers need
// no element-wise non-nil fact about executor lists)
//@ func NewCustomPrecompiledContractMethod(executor ExtendedCustomPrecompiledContractMethodExecutorI, protocolVersion cpctypes.ProtocolCpc) (m corevm.CustomPrecompiledContractMethod)
//@   modifies nothing
//@   ensures[C12.flag_passthrough] m.ReadOnly == executor.ReadOnly() && m.RequireGas == executor.RequireGas() && m.Method4BytesSignatures == executor.Method4BytesSignatures()
//@   ensures[C12.wraps_executor] typeof(m.Executor) == type(*customPrecompiledContractMethodExecutorImpl) && fresh(payload(m.Executor)) && unbox(m.Executor, type(*customPrecompiledContractMethodExecutorImpl)).executor == executor && unbox(m.Executor, type(*customPrecompiledContractMethodExecutorImpl)).protocolVersion == protocolVersion
//@   ensures executor != nil
//@   panics only_if executor == nil

// The wrapper the fork calls: exactly one call of the wrapped executor, with the call data unchanged, the EVM it was
// given and the StateDB's CURRENT context (so that every write of the executor lands in the innermost, revertible layer).
//@ func (m customPrecompiledContractMethodExecutorImpl) Execute(caller corevm.ContractRef, contractAddress common.Address, input []byte, evm *corevm.EVM) (ret []byte, err error)
//@   requires m.executor != nil && evm != nil''')
w(f'//@   modifies cpcInnerCalls, cpcInnerCtx, cpcInnerEvm, cpcInnerExecutor, cpcInnerInput, {WORLD}')
w('//@   ensures[C12.exec_env,C03.exec_env] cpcInnerCalls[0] == old(cpcInnerCalls[0]) + 1 && cpcInnerEvm[0] == evm && cpcInnerExecutor[0] == payload(m.executor) && cpcInnerInput[0] == bytes(input) && implements(evm.StateDB, type(evmvm.CStateDB)) && cpcInnerCtx[0] == old(sdbCurCtx[payload(evm.StateDB)])')
w('//@   panics any')
w()

# ---- params (C17) ---------------------------------------------------------------------------------------
PK = 'b1(1)'
def PVER(ctx, k): return f'cpcParamsVersion({HAS(ctx,k)}, {VAL(ctx,k)})'
w('''// ---------------------------------------------------------------------------------------------
// params.go — module parameters (C17). View of the stored record: the store entry at key [1] (KeyPrefixParams),
// decoded by the codec (prelude/44_cpc_codec.spec); an absent / empty entry is the zero Params record.
// ---------------------------------------------------------------------------------------------
//@ ghost func cpcParamsVersion(has map[bytes]bool, val map[bytes]bytes) int = (has[b1(1)] && blen(val[b1(1)]) != 0) ? pbParamsVersion(val[b1(1)]) : 0
//@ ghost func cpcParamsDoc(has map[bytes]bool, val map[bytes]bytes) bytes = val[b1(1)]
//@ ghost func cpcParamsStored(has map[bytes]bool, val map[bytes]bytes) bool = has[b1(1)] && blen(val[b1(1)]) != 0
''')
w('//@ func (k Keeper) GetParams(ctx sdk.Context) (params cpctypes.Params)')
w('//@   requires k.storeKey != nil && k.cdc != nil')
w('//@   modifies nothing')
w(f'//@   ensures[C17.params_view] params.ProtocolVersion == {PVER("ctx","k")}')
w(f'//@   ensures[C17.params_whitelist_view] cpcParamsStored({HAS("ctx","k")}, {VAL("ctx","k")}) ==> (len(params.WhitelistedDeployers) == pbParamsWLLen(cpcParamsDoc({HAS("ctx","k")}, {VAL("ctx","k")})) && (forall j int :: (0 <= j && j < len(params.WhitelistedDeployers)) ==> params.WhitelistedDeployers[j] == pbParamsWLAt(cpcParamsDoc({HAS("ctx","k")}, {VAL("ctx","k")}), j)))')
w(f'//@   ensures !cpcParamsStored({HAS("ctx","k")}, {VAL("ctx","k")}) ==> len(params.WhitelistedDeployers) == 0')
w(f'//@   panics only_if cpcParamsStored({HAS("ctx","k")}, {VAL("ctx","k")}) && !pbParamsOk(cpcParamsDoc({HAS("ctx","k")}, {VAL("ctx","k")}))')
w()
w('//@ func (k Keeper) GetProtocolCpcVersion(ctx sdk.Context) cpctypes.ProtocolCpc')
w('//@   requires k.storeKey != nil && k.cdc != nil')
w('//@   modifies nothing')
w(f'//@   ensures[C17.version_view] result == {PVER("ctx","k")}')
w(f'//@   panics only_if cpcParamsStored({HAS("ctx","k")}, {VAL("ctx","k")}) && !pbParamsOk(cpcParamsDoc({HAS("ctx","k")}, {VAL("ctx","k")}))')
w()
w('// SetParams: the protocol version never decreases; a rejected update leaves the store untouched; only the params entry is written.')
w('//@ func (k Keeper) SetParams(ctx sdk.Context, params cpctypes.Params) (err error)')
w('//@   requires k.storeKey != nil && k.cdc != nil')
w(f'//@   modifies {HAS("ctx","k")}, {VAL("ctx","k")}')
w(f'//@   ensures[C17.no_downgrade] err == nil ==> (old({PVER("ctx","k")}) <= params.ProtocolVersion && {PVER("ctx","k")} == params.ProtocolVersion)')
w(f'//@   ensures[C17.downgrade_rejected] old({PVER("ctx","k")}) > params.ProtocolVersion ==> err != nil')
w(f'//@   ensures[C17.rejected_update_writes_nothing] err != nil ==> {STORE_SAME("ctx","k")}')
w(f'//@   ensures[C17.params_frame] {STORE_EXCEPT("ctx","k",PK)}')
w(f'//@   ensures[C17.params_valid_version] err == nil ==> (1 <= params.ProtocolVersion && params.ProtocolVersion <= 1)')
w()
w('''// msg_server.go — deployment is restricted to the whitelist stored in the params (C17)
//@ func validateDeployer(authority string, moduleParams cpctypes.Params) (err error)
//@   modifies nothing
//@   ensures[C17.whitelist_check] (err == nil) == (exists j int :: 0 <= j && j < len(moduleParams.WhitelistedDeployers) && moduleParams.WhitelistedDeployers[j] == authority)
//@   panics never
//@ loop 1
//@   invariant -1 <= rangeindex && rangeindex < len(moduleParams.WhitelistedDeployers) && (forall j int :: (0 <= j && j <= rangeindex) ==> moduleParams.WhitelistedDeployers[j] != authority)
''')

# ---- registry (C17) ---------------------------------------------------------------------------------------
w('''// ---------------------------------------------------------------------------------------------
// precompiles.go — the registry of custom precompiled contracts (C17). View over the module store: the record of address
// a is the store entry at metaKeyB(a) = [2] ++ a (x/cpc/types/verif_contracts.go), decoded by the codec.
// ---------------------------------------------------------------------------------------------
''')
def MK(a): return f'metaKeyB({a})'
A_IN = 'bytesAddr(bytes(contractMetadata.Address))'
w('//@ func (k Keeper) HasCustomPrecompiledContract(ctx sdk.Context, contractAddress common.Address) bool')
w('//@   requires k.storeKey != nil')
w('//@   modifies nothing')
w(f'//@   ensures[C17.has_view] result == {HAS("ctx","k")}[{MK("contractAddress")}]')
w('//@   panics never')
w()
w('//@ func (k Keeper) GetCustomPrecompiledContractMeta(ctx sdk.Context, contractAddress common.Address) (meta *cpctypes.CustomPrecompiledContractMeta)')
w('//@   requires k.storeKey != nil && k.cdc != nil')
w('//@   modifies nothing')
w(f'//@   ensures[C17.get_absent] (meta == nil) == !({HAS("ctx","k")}[{MK("contractAddress")}] && blen({VAL("ctx","k")}[{MK("contractAddress")}]) != 0)')
w(f'//@   ensures[C17.get_view] meta != nil ==> (fresh(meta) && meta.CustomPrecompiledType == pbMetaType({VAL("ctx","k")}[{MK("contractAddress")}]) && bytes(meta.Address) == pbMetaAddr({VAL("ctx","k")}[{MK("contractAddress")}]) && meta.Name == pbMetaName({VAL("ctx","k")}[{MK("contractAddress")}]) && meta.TypedMeta == pbMetaTyped({VAL("ctx","k")}[{MK("contractAddress")}]) && meta.Disabled == pbMetaDisabled({VAL("ctx","k")}[{MK("contractAddress")}]))')
w(f'//@   panics only_if {HAS("ctx","k")}[{MK("contractAddress")}] && !pbMetaOk({VAL("ctx","k")}[{MK("contractAddress")}])')
w()
K = MK(A_IN)
w('''// SetCustomPrecompiledContractMeta: a new deployment needs a free address, an update an existing record of the SAME type
// (a type change panics); only the record of that address is written; a failing call writes nothing.''')
w('//@ func (k Keeper) SetCustomPrecompiledContractMeta(ctx sdk.Context, contractMetadata cpctypes.CustomPrecompiledContractMeta, newDeployment bool) (err error)')
w('//@   requires k.storeKey != nil && k.cdc != nil')
w(f'//@   modifies {HAS("ctx","k")}, {VAL("ctx","k")}, evlog[payload(ctx.EventManager())]')
w(f'//@   ensures[C17.valid_records_only] err == nil ==> (len(contractMetadata.Address) == 20 && {A_IN} != {ZERO} && 1 <= contractMetadata.CustomPrecompiledType && contractMetadata.CustomPrecompiledType <= 3)')
w(f'//@   ensures[C17.new_needs_free_address] (err == nil && newDeployment) ==> !old({HAS("ctx","k")}[{K}])')
w(f'//@   ensures[C17.update_needs_record] (err == nil && !newDeployment) ==> (old({HAS("ctx","k")}[{K}]) && blen(old({VAL("ctx","k")}[{K}])) != 0)')
w(f'//@   ensures[C17.type_never_changes] (err == nil && !newDeployment) ==> pbMetaType(old({VAL("ctx","k")}[{K}])) == contractMetadata.CustomPrecompiledType')
w(f'//@   ensures[C17.record_stored] err == nil ==> ({HAS("ctx","k")}[{K}] && pbMetaType({VAL("ctx","k")}[{K}]) == contractMetadata.CustomPrecompiledType && pbMetaAddr({VAL("ctx","k")}[{K}]) == bytes(contractMetadata.Address) && pbMetaName({VAL("ctx","k")}[{K}]) == contractMetadata.Name && pbMetaTyped({VAL("ctx","k")}[{K}]) == contractMetadata.TypedMeta && pbMetaDisabled({VAL("ctx","k")}[{K}]) == contractMetadata.Disabled && blen({VAL("ctx","k")}[{K}]) != 0)')
w(f'//@   ensures[C17.registry_frame] {STORE_EXCEPT("ctx","k",K)}')
w(f'//@   ensures[C17.failed_set_writes_nothing] err != nil ==> {STORE_SAME("ctx","k")}')
w(f'//@   ensures[C17.registry_key_table] cpcKeyTable({K}) == 2')
w()

# ---- deployment (C17) ---------------------------------------------------------------------------------------
MOD = 'moduleAddr(cpctypes.ModuleName)'
def SEQ(ctx): return f'acctSeq[layer({ctx})][{MOD}]'
w('''// ---------------------------------------------------------------------------------------------
// Deployment (C17): dynamic addresses come from the cpc module account's sequence; fixed-address contracts are deployed
// at their fixed addresses; every deployment is a NEW registry record (never an overwrite).
// ---------------------------------------------------------------------------------------------
//@ import crypto "github.com/ethereum/go-ethereum/crypto"
''')
w('//@ func (k Keeper) GetNextDynamicCustomPrecompiledContractAddress(ctx sdk.Context) common.Address')
w('//@   modifies acctExists[layer(ctx)], acctSeq[layer(ctx)], authVersion[layer(ctx)]')
w(f'//@   ensures[C17.dynamic_address_from_sequence] result == crypto.CreateAddress(cpctypes.CpcModuleAddress, old({SEQ("ctx")}))')
w(f'//@   ensures[C17.sequence_consumed] acctSeq[layer(ctx)] == old(acctSeq[layer(ctx)])[{MOD} := (old({SEQ("ctx")}) + 1) % pow2(64)] && acctExists[layer(ctx)][{MOD}]')
w('//@   panics only_if !modExists(cpctypes.ModuleName)')
w()
def fixed(fn, sig, addr, typ, extra_req='', typed=None):
    K = MK(addr)
    w(f'//@ func (k Keeper) {fn}({sig}) (addr common.Address, err error)')
    w(f'//@   requires k.storeKey != nil && k.cdc != nil{extra_req}')
    w(f'//@   modifies {HAS("ctx","k")}, {VAL("ctx","k")}, evlog[payload(ctx.EventManager())]')
    w(f'//@   ensures[C17.{fn}_at_fixed_address] err == nil ==> (addr == {addr} && !old({HAS("ctx","k")}[{K}]) && {HAS("ctx","k")}[{K}] && pbMetaType({VAL("ctx","k")}[{K}]) == {typ} && pbMetaAddr({VAL("ctx","k")}[{K}]) == addrBytes({addr}) && !pbMetaDisabled({VAL("ctx","k")}[{K}]))')
    w(f'//@   ensures[C17.{fn}_frame] {STORE_EXCEPT("ctx","k",K)}')
    w(f'//@   ensures[C17.{fn}_failure_writes_nothing] err != nil ==> {STORE_SAME("ctx","k")}')
    w()
fixed('DeployStakingCustomPrecompiledContract', 'ctx sdk.Context, stakingMeta cpctypes.StakingCustomPrecompiledContractMeta', 'cpctypes.CpcStakingFixedAddress', 2)
fixed('DeployBech32CustomPrecompiledContract', 'ctx sdk.Context', 'cpctypes.CpcBech32FixedAddress', 3)
DK = 'denomKeyB(erc20Meta.MinDenom)'
NEW = f'crypto.CreateAddress(cpctypes.CpcModuleAddress, old({SEQ("ctx")}))'
w('''// DeployErc20CustomPrecompiledContract: at most one ERC-20 precompile per denomination (the reverse index entry must be
// free), only for a denomination with positive supply; the record goes to the next dynamic address and the reverse index
// entry denom -> address is written with it; nothing else in the store changes.''')
w('//@ func (k Keeper) DeployErc20CustomPrecompiledContract(ctx sdk.Context, name string, erc20Meta cpctypes.Erc20CustomPrecompiledContractMeta) (addr common.Address, err error)')
w('//@   requires k.storeKey != nil && k.cdc != nil && k.bankKeeper != nil')
w(f'//@   modifies {HAS("ctx","k")}, {VAL("ctx","k")}, evlog[payload(ctx.EventManager())], acctExists[layer(ctx)], acctSeq[layer(ctx)], authVersion[layer(ctx)]')
w(f'//@   ensures[C17.one_per_denom] err == nil ==> !(old({HAS("ctx","k")}[{DK}]) && blen(old({VAL("ctx","k")}[{DK}])) != 0)')
w(f'//@   ensures[C17.positive_supply_only] err == nil ==> old(bankSupply[layer(ctx)][erc20Meta.MinDenom]) > 0')
w(f'//@   ensures[C17.erc20_meta_valid] err == nil ==> (erc20Meta.Symbol != "" && erc20Meta.Decimals <= 18 && erc20Meta.MinDenom != "" && erc20Meta.Symbol != erc20Meta.MinDenom)')
w(f'//@   ensures[C17.erc20_dynamic_address] err == nil ==> (addr == {NEW} && !old({HAS("ctx","k")}[{MK("addr")}]))')
w(f'//@   ensures[C17.erc20_record_and_index] err == nil ==> ({HAS("ctx","k")}[{MK("addr")}] && pbMetaType({VAL("ctx","k")}[{MK("addr")}]) == 1 && pbMetaAddr({VAL("ctx","k")}[{MK("addr")}]) == addrBytes(addr) && pbMetaName({VAL("ctx","k")}[{MK("addr")}]) == name && !pbMetaDisabled({VAL("ctx","k")}[{MK("addr")}]) && jsonErc20MinDenom(strBytes(pbMetaTyped({VAL("ctx","k")}[{MK("addr")}]))) == erc20Meta.MinDenom && {HAS("ctx","k")}[{DK}] && {VAL("ctx","k")}[{DK}] == addrBytes(addr))')
w(f'//@   ensures[C17.erc20_deploy_frame] {HAS("ctx","k")} == old({HAS("ctx","k")})[{MK(NEW)} := {HAS("ctx","k")}[{MK(NEW)}]][{DK} := {HAS("ctx","k")}[{DK}]] && {VAL("ctx","k")} == old({VAL("ctx","k")})[{MK(NEW)} := {VAL("ctx","k")}[{MK(NEW)}]][{DK} := {VAL("ctx","k")}[{DK}]]')
w()
w('//@ func (k Keeper) GetErc20CustomPrecompiledContractAddressByMinDenom(ctx sdk.Context, minDenom string) (addr *common.Address)')
w('//@   requires k.storeKey != nil')
w('//@   modifies nothing')
w(f'//@   ensures[C17.denom_index_view] (addr == nil) == !({HAS("ctx","k")}[denomKeyB(minDenom)] && blen({VAL("ctx","k")}[denomKeyB(minDenom)]) != 0)')
w(f'//@   ensures[C17.denom_index_value] (addr != nil && blen({VAL("ctx","k")}[denomKeyB(minDenom)]) == 20) ==> *addr == bytesAddr({VAL("ctx","k")}[denomKeyB(minDenom)])')
w('//@   panics never')
w()
# msg server
def DOC(ctx): return f'cpcParamsDoc({HAS(ctx,"k.Keeper")}, {VAL(ctx,"k.Keeper")})'
CTXG = 'sdk.UnwrapSDKContext(goCtx)'
def msg(fn, reqT, resT):
    w(f'//@ func (k *msgServer) {fn}(goCtx context.Context, req *cpctypes.{reqT}) (res *cpctypes.{resT}, err error)')
    w('//@   requires k != nil && req != nil && k.Keeper.storeKey != nil && k.Keeper.cdc != nil && k.Keeper.bankKeeper != nil')
    w(f'//@   modifies {HAS(CTXG,"k.Keeper")}, {VAL(CTXG,"k.Keeper")}, evlog[payload({CTXG}.EventManager())], acctExists[layer({CTXG})], acctSeq[layer({CTXG})], authVersion[layer({CTXG})]')
    w(f'//@   ensures[C17.{fn}_whitelisted_only] err == nil ==> (old(cpcParamsStored({HAS(CTXG,"k.Keeper")}, {VAL(CTXG,"k.Keeper")})) && (exists j int :: 0 <= j && j < pbParamsWLLen(old({DOC(CTXG)})) && pbParamsWLAt(old({DOC(CTXG)}), j) == req.Authority))')
    w(f'//@   ensures[C17.{fn}_rejected_writes_nothing] !(old(cpcParamsStored({HAS(CTXG,"k.Keeper")}, {VAL(CTXG,"k.Keeper")})) && (exists j int :: 0 <= j && j < pbParamsWLLen(old({DOC(CTXG)})) && pbParamsWLAt(old({DOC(CTXG)}), j) == req.Authority)) ==> (err != nil && {STORE_SAME(CTXG,"k.Keeper")} && acctSeq[layer({CTXG})] == old(acctSeq[layer({CTXG})]))')
    w()
w('''// msg_server.go — only an address on the stored whitelist deploys (C17); a request from anybody else fails before any write
//@ import context "context"''')
msg('DeployErc20Contract', 'MsgDeployErc20ContractRequest', 'MsgDeployErc20ContractResponse')
msg('DeployStakingContract', 'MsgDeployStakingContractRequest', 'MsgDeployStakingContractResponse')

# ---- UpdateParams, contract objects -----------------------------------------------------------------------------
w('//@ func (k *msgServer) UpdateParams(goCtx context.Context, req *cpctypes.MsgUpdateParams) (res *cpctypes.MsgUpdateParamsResponse, err error)')
w('//@   requires k != nil && req != nil && k.Keeper.storeKey != nil && k.Keeper.cdc != nil')
w(f'//@   modifies {HAS(CTXG,"k.Keeper")}, {VAL(CTXG,"k.Keeper")}')
w(f'//@   ensures[C17.update_params_no_downgrade] err == nil ==> (old({PVER(CTXG,"k.Keeper")}) <= req.NewParams.ProtocolVersion && {PVER(CTXG,"k.Keeper")} == req.NewParams.ProtocolVersion)')
w(f'//@   ensures[C17.update_params_failure_writes_nothing] err != nil ==> {STORE_SAME(CTXG,"k.Keeper")}')
w(f'//@   ensures[C17.update_params_frame] {STORE_EXCEPT(CTXG,"k.Keeper",PK)}')
w()
w('''// The contract object of an ERC-20 precompile: built with an EMPTY decode cache (this establishes the cache invariant
// that every executor requires) and the record it was given.
//@ func NewErc20CustomPrecompiledContract(metadata cpctypes.CustomPrecompiledContractMeta, keeper Keeper) (c CustomPrecompiledContractI)
//@   modifies nothing
//@   ensures[C10.contract_object] typeof(c) == type(*erc20CustomPrecompiledContract) && fresh(payload(c)) && unbox(c, type(*erc20CustomPrecompiledContract)).cacheErc20Metadata == nil && unbox(c, type(*erc20CustomPrecompiledContract)).metadata.TypedMeta == metadata.TypedMeta && unbox(c, type(*erc20CustomPrecompiledContract)).metadata.Name == metadata.Name && unbox(c, type(*erc20CustomPrecompiledContract)).keeper.storeKey == keeper.storeKey && unbox(c, type(*erc20CustomPrecompiledContract)).keeper.bankKeeper == keeper.bankKeeper
//@   ensures[C10.eleven_methods] len(unbox(c, type(*erc20CustomPrecompiledContract)).executors) == 11
//@   ensures[C17.erc20_object_keeps_record] unbox(c, type(*erc20CustomPrecompiledContract)) != nil && unbox(c, type(*erc20CustomPrecompiledContract)).metadata.CustomPrecompiledType == metadata.CustomPrecompiledType && bytes(unbox(c, type(*erc20CustomPrecompiledContract)).metadata.Address) == bytes(metadata.Address) && len(unbox(c, type(*erc20CustomPrecompiledContract)).metadata.Address) == len(metadata.Address) && unbox(c, type(*erc20CustomPrecompiledContract)).metadata.Disabled == metadata.Disabled
//@   panics never

// NewCustomPrecompiledContract: a record of type 1 / 2 / 3 gives the ERC-20 / staking / bech32 contract object; any other
// type panics (no contract object exists for an unknown type).
//@ func NewCustomPrecompiledContract(metadata cpctypes.CustomPrecompiledContractMeta, keeper Keeper) (c CustomPrecompiledContractI)
//@   modifies nothing
//@   ensures[C17.contract_of_type] (metadata.CustomPrecompiledType == 1 ==> typeof(c) == type(*erc20CustomPrecompiledContract)) && (metadata.CustomPrecompiledType == 2 ==> typeof(c) == type(*stakingCustomPrecompiledContract)) && (metadata.CustomPrecompiledType == 3 ==> typeof(c) == type(*bech32CustomPrecompiledContract))
//@   ensures[C17.known_types_only] 1 <= metadata.CustomPrecompiledType && metadata.CustomPrecompiledType <= 3
''')
# the contract object carries the record it was built from, unchanged, and a non-empty list of non-nil executors
def OBJ_KEEPS(c, T, m):
    u = f'unbox({c}, type(*{T}))'
    return f'(typeof({c}) == type(*{T}) ==> ({u} != nil && {u}.metadata.CustomPrecompiledType == {m}.CustomPrecompiledType && bytes({u}.metadata.Address) == bytes({m}.Address) && len({u}.metadata.Address) == len({m}.Address) && {u}.metadata.Name == {m}.Name && {u}.metadata.TypedMeta == {m}.TypedMeta && {u}.metadata.Disabled == {m}.Disabled && len({u}.executors) > 0))'
CPC_TYPES = ['erc20CustomPrecompiledContract', 'stakingCustomPrecompiledContract', 'bech32CustomPrecompiledContract']
for T in CPC_TYPES:
    w(f'//@   ensures[C17.object_keeps_record_{T[:-len("CustomPrecompiledContract")]}] {OBJ_KEEPS("c", T, "metadata")}')
w('//@   ensures c != nil && fresh(payload(c))')
w('//@   panics[C17.unknown_type_panics] only_if !(1 <= metadata.CustomPrecompiledType && metadata.CustomPrecompiledType <= 3)')
w()

# ---- read-only staking executors (C12 clause (b)) ---------------------------------------------------------------
GHOST_WORLD = ['bankBal', 'bankSupply', 'authVersion', 'evlog', 'kvHas', 'kvVal', 'acctSeq', 'acctExists', 'stakingVersion', 'distVersion'] + LOGVARS[:-1]
WORLD_SAME = '(' + ' && '.join(f'{g} == old({g})' for g in GHOST_WORLD) + ')'
w('''// ---------------------------------------------------------------------------------------------
// precompiles_staking.go — read-only methods (C12 clause (b)): a method that declares ReadOnly() == true writes no
// chain state (bank, auth, module store, staking, distribution), appends no log and emits no event — in ANY context.
// Frame: `modifies nothing` / the contract object's decode cache only; the clause C12.ro_world_unchanged states it over the
// whole ghost world.
// ---------------------------------------------------------------------------------------------
''')
SC = 'e.contract'
WORLD_SAME_NODIST = '(' + ' && '.join(f'{g} == old({g})' for g in GHOST_WORLD if g != 'distVersion') + ')'
def ro_staking(t, cexpr, name, req='', cache=False, dist=False):
    w(f'//@ func (e {t}) Execute(caller corevm.ContractRef, contractAddr common.Address, input []byte, env cpcExecutorEnv) (ret []byte, err error)')
    w(f'//@   requires {cexpr} != nil{req}')
    mods = []
    if cache:
        mods.append(f'{cexpr}.cacheStakingMetadata')
    if dist:
        # the querier runs on a cache context (a child layer, prelude/40_statedb_context.spec: one level deeper than the
        # call's layer): the only entries written are those of that child
        mods.append('distVersion')
    w('//@   modifies ' + (', '.join(mods) if mods else 'nothing'))
    if dist:
        w(f'//@   ensures[C12.ro_world_unchanged] {WORLD_SAME_NODIST}')
        w('//@   ensures[C12.ro_distribution_unchanged] distVersion[layer(env.ctx)] == old(distVersion[layer(env.ctx)]) && (forall l int :: lyrDepth(l) <= lyrDepth(layer(env.ctx)) ==> distVersion[l] == old(distVersion[l]))')
    else:
        w(f'//@   ensures[C12.ro_world_unchanged] {WORLD_SAME}')
    w()
w('''// rewardOf / rewardsOf / balanceOf read the pending rewards through the x/distribution gRPC querier, which WRITES
// (IncrementValidatorPeriod). Clause C12.ro_distribution_unchanged is the part of "a read-only method writes nothing" that
// concerns x/distribution: the x/distribution state of the call's own layer, and of every store layer that is not deeper
// than it (the layer itself, all its ancestors — i.e. every layer whose content can still be committed — and their
// siblings), is unchanged: the only entries that may change belong to a child layer created during the call and never
// written back. It FAILS when the querier is run on the live context (finding F-cpc-2, docs/findings-cpc.md); it holds
// when the querier runs on a cache context whose write function is dropped (fix candidate, docs/findings-cpc2.md).''')
ro_staking('stakingCustomPrecompiledContractRoRewardOf', SC, 'rewardOf', dist=True)
ro_staking('stakingCustomPrecompiledContractRoRewardsOf', SC, 'rewardsOf', dist=True)
ro_staking('stakingCustomPrecompiledContractRoBalanceOf', 'e.rewardsOf.contract', 'balanceOf', req=' && e.rewardsOf.contract.keeper.bankKeeper != nil', dist=True)
w('// the remaining read-only staking methods and the ten bech32 methods (pure computations)')
ro_staking('stakingCustomPrecompiledContractRoName', SC, 'name')
ro_staking('stakingCustomPrecompiledContractRoSymbol', SC, 'symbol', cache=True)
ro_staking('stakingCustomPrecompiledContractRoDecimals', SC, 'decimals', cache=True)
w('// (delegatedValidators is NOT under contract: its loop builds a result slice with append; the engine havocs the element heap of a loop-carried slice, so the frame of pre-existing []common.Address backings cannot be shown)')
ro_staking('stakingCustomPrecompiledContractRoDelegationOf', SC, 'delegationOf')
ro_staking('stakingCustomPrecompiledContractRoTotalDelegationOf', SC, 'totalDelegationOf')
for t in order:
    if t.startswith('bech32'):
        w(f'//@ func (e {t}) Execute(caller corevm.ContractRef, contractAddr common.Address, input []byte, env cpcExecutorEnv) (ret []byte, err error)')
        w('//@   modifies nothing')
        w(f'//@   ensures[C12.ro_world_unchanged] {WORLD_SAME}')
        w()
