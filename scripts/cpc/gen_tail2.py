# ---- helper "cpc2": registry listing (C17 exposure half), staking write methods (C11), genesis (C18) ---------------
# exec'd by gen_keeper.py after gen_tail.py (shares its macros: ID, HAS, VAL, w, ...)
MP = 'b1(2)'   # KeyPrefixCustomPrecompiledContractMeta
def N(ctx, k): return f'kvSeqLen({HAS(ctx,k)}, {MP})'
def KEY(ctx, k, i): return f'kvSeqKey({HAS(ctx,k)}, {MP}, {i})'
def REC(ctx, k, i): return f'{VAL(ctx,k)}[{KEY(ctx,k,i)}]'
def META_IS(m, rec):
    return f'({m}.CustomPrecompiledType == pbMetaType({rec}) && bytes({m}.Address) == pbMetaAddr({rec}) && {m}.Name == pbMetaName({rec}) && {m}.TypedMeta == pbMetaTyped({rec}) && {m}.Disabled == pbMetaDisabled({rec}))'

w('''// ---------------------------------------------------------------------------------------------
// precompiles.go — listing the registry (C17, exposure half). The registry records are the entries of the module store
// whose key starts with KeyPrefixCustomPrecompiledContractMeta = [2]; the store's ordered prefix iterator enumerates them
// (prelude/48_cpc2_iterator.spec: kvSeqLen / kvSeqKey of the store's domain): record i is the value at the i-th such key.
// GetAllCustomPrecompiledContractsMeta returns EXACTLY that list, decoded, in that order — no record skipped, none added.
// ---------------------------------------------------------------------------------------------
''')
w('//@ func (k Keeper) GetAllCustomPrecompiledContractsMeta(ctx sdk.Context) (metas []cpctypes.CustomPrecompiledContractMeta)')
w('//@   requires k.storeKey != nil && k.cdc != nil')
w('//@   modifies nothing')
w(f'//@   ensures[C17.all_records_listed] len(metas) == {N("ctx","k")} && (forall i int :: (0 <= i && i < len(metas)) ==> {META_IS("metas[i]", REC("ctx","k","i"))})')
w('//@   ensures len(metas) == 0 || fresh(base(metas))')
w(f'//@   panics only_if exists i int :: 0 <= i && i < {N("ctx","k")} && !pbMetaOk({REC("ctx","k","i")})')
w('//@ loop 1')
w('//@   fresh_writes')
w(f'//@   invariant iterator != nil && fresh(payload(iterator)) && itKv(payload(iterator)) == {ID("ctx","k")} && itPrefix(payload(iterator)) == {MP} && 0 <= itPos[payload(iterator)] && itPos[payload(iterator)] <= {N("ctx","k")}')
w(f'//@   invariant len(metas) == itPos[payload(iterator)] && (cap(metas) == 0 || fresh(base(metas))) && (forall i int :: (0 <= i && i < len(metas)) ==> {META_IS("metas[i]", REC("ctx","k","i"))})')
w()

def OBJ_META(c, T, rec):
    u = f'unbox({c}, type(*{T}))'
    return f'(typeof({c}) == type(*{T}) ==> ({u} != nil && {META_IS(u + ".metadata", rec)}))'
def OBJ_EXECS(c, T):
    u = f'unbox({c}, type(*{T}))'
    return f'(typeof({c}) == type(*{T}) ==> (len({u}.executors) > 0 && (forall j int :: (0 <= j && j < len({u}.executors)) ==> {u}.executors[j] != nil)))'
def OBJ_TYPE(c):
    return f'({c} != nil && (typeof({c}) == type(*erc20CustomPrecompiledContract) || typeof({c}) == type(*stakingCustomPrecompiledContract) || typeof({c}) == type(*bech32CustomPrecompiledContract)))'
def SHORT(T): return T[:-len("CustomPrecompiledContract")]
def OBJ_ALL(c, rec):
    parts = [f'{c} != nil', f'1 <= pbMetaType({rec})', f'pbMetaType({rec}) <= 3']
    for n, T in enumerate(CPC_TYPES):
        u = f'unbox({c}, type(*{T}))'
        parts.append(f'(pbMetaType({rec}) == {n+1} ==> typeof({c}) == type(*{T}))')
        parts.append(f'(typeof({c}) == type(*{T}) ==> ({u} != nil && {META_IS(u + ".metadata", rec)} && len({u}.executors) > 0))')
    return '(' + ' && '.join(parts) + ')'
def EXECS_NONNIL(c, T, i):
    u = f'unbox({c}, type(*{T}))'
    return f'(typeof({c}) == type(*{T}) && 0 <= j && j < len({u}.executors)) ==> {u}.executors[j] != nil'
w('''// GetAllCustomPrecompiledContracts: one contract object per registry record, in the same order; object i is of the type
// its record names (1 ERC-20, 2 staking, 3 bech32), carries record i unchanged (address, type, name, typed metadata, DISABLED
// flag) and a non-empty list of executors. (One quantified clause per fact family: a caller that looks at element i
// gets everything about it from one instantiation.)''')
w('//@ func (k Keeper) GetAllCustomPrecompiledContracts(ctx sdk.Context) (contracts []CustomPrecompiledContractI)')
w('//@   requires k.storeKey != nil && k.cdc != nil')
w('//@   modifies nothing')
w(f'//@   ensures[C17.one_object_per_record] len(contracts) == {N("ctx","k")}')
w(f'//@   ensures[C17.object_is_record] forall i int :: (0 <= i && i < len(contracts)) ==> {OBJ_ALL("contracts[i]", REC("ctx","k","i"))}')
w('//@   ensures cap(contracts) == 0 || fresh(base(contracts))')
w('//@ loop 1')
w('//@   fresh_writes')
w(f'//@   invariant -1 <= rangeindex && rangeindex < len(metas) && len(contracts) == rangeindex + 1 && (cap(contracts) == 0 || fresh(base(contracts)))')
w(f'//@   invariant forall i int :: (0 <= i && i <= rangeindex) ==> {OBJ_ALL("contracts[i]", REC("ctx","k","i"))}')
w()
w('''// The accessors of the three contract objects return the stored record / executor list unchanged (value receivers: the
// pointer-receiver wrappers share these contracts). With contracts here, a call through CustomPrecompiledContractI is
// split over these six implementations without copying the objects.''')
for T in CPC_TYPES:
    w(f'//@ func (m {T}) GetMetadata() (meta cpctypes.CustomPrecompiledContractMeta)')
    w('//@   modifies nothing')
    w(f'//@   ensures[C17.get_metadata_{SHORT(T)}] meta.CustomPrecompiledType == m.metadata.CustomPrecompiledType && meta.Address == m.metadata.Address && meta.Name == m.metadata.Name && meta.TypedMeta == m.metadata.TypedMeta && meta.Disabled == m.metadata.Disabled')
    w('//@   panics never')
    w(f'//@ func (m {T}) GetMethodExecutors() (execs []ExtendedCustomPrecompiledContractMethodExecutorI)')
    w('//@   modifies nothing')
    w(f'//@   ensures[C17.get_executors_{SHORT(T)}] execs == m.executors')
    w('//@   panics never')
w()
