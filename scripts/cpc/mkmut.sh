#!/bin/sh
# usage: mkmut.sh <name> <repo-relative-file> <python-expr-old> <python-expr-new>   (exact string replace, must occur once)
NAME=$1; F=$2
REPO=${VERIF_REPO:-/repo}
OUT=$(cd "$(dirname "$0")/../.." && pwd)/selftest/mutants/$NAME.patch
T=$(mktemp -d)
mkdir -p $T/a/$(dirname $F) $T/b/$(dirname $F)
case "$F" in @fork/*) cp "/root/go/pkg/mod/github.com/!escan!b!e/go-ethereum-for-evermint@v1.10.28/${F#@fork/}" $T/a/$F; chmod u+w $T/a/$F;; *) cp $REPO/$F $T/a/$F;; esac
OLD="$3" NEW="$4" python3 - "$T/a/$F" "$T/b/$F" <<'PY'
import sys,os
s=open(sys.argv[1]).read()
old=os.environ['OLD']; new=os.environ['NEW']
n=s.count(old)
if n!=1:
    print("ERROR: pattern occurs %d times"%n); sys.exit(1)
open(sys.argv[2],'w').write(s.replace(old,new))
PY
[ $? -eq 0 ] || exit 1
(cd $T && diff -u --label a/$F --label b/$F a/$F b/$F > $OUT)
rm -rf $T
echo "wrote $OUT"
