#!/usr/bin/env python3
"""Generates $VERIF_REPO/x/cpc/keeper/verif_contracts.go (the long clauses are assembled from macros; the generated file is the deliverable and is what the verifier reads). usage: VERIF_REPO=<repo> python3 scripts/cpc/gen_keeper.py"""
import re, sys
import os
REPO = os.environ.get('VERIF_REPO', '/repo')
HERE = os.path.dirname(os.path.abspath(__file__))
out = []
def w(s=''):
    out.append(s)

w('''//go:build verif

// Contracts for the deductive verifier in /verif (govc). This file contains no code: with the
// build tag off it is not part of the package, with it on it adds nothing to the build.
package keeper

//@ import sdk "github.com/cosmos/cosmos-sdk/types"
//@ import big "math/big"
//@ import common "github.com/ethereum/go-ethereum/common"
//@ import corevm "github.com/ethereum/go-ethereum/core/vm"
//@ import cpctypes "github.com/EscanBE/evermint/v12/x/cpc/types"
//@ import abi "github.com/EscanBE/evermint/v12/x/cpc/abi"
''')

# ------------------------------------------------------------------------------------------------
# executor metadata (C12): ReadOnly / RequireGas / Method4BytesSignatures of all executors
# ------------------------------------------------------------------------------------------------
w('''// ---------------------------------------------------------------------------------------------
// Executor metadata (C12). Every executor declares constants: its selector, its gas and whether it is read-only.
// C12 clause (c): a state-changing method (ReadOnly() == false) charges non-zero gas — visible in the pairs below and
// enforced again by the fork's CustomPrecompiledContractMethod.Validate (depspecs/core_vm_evermint.spec).
// ---------------------------------------------------------------------------------------------
''')
files = ['x/cpc/keeper/precompiles_erc20.go', 'x/cpc/keeper/precompiles_staking.go', 'x/cpc/keeper/precompiles_bech32.go']
meta = {}   # type -> {ro, gas, sig}
order = []
for f in files:
    src = open(f'{REPO}/{f}').read()
    for m in re.finditer(r'func \(e (\w+)\) (ReadOnly|RequireGas|Method4BytesSignatures)\(\) (?:\[\]byte|\w+) \{\n\treturn (.*)\n\}', src):
        t, fn, val = m.group(1), m.group(2), m.group(3).strip()
        if t not in meta:
            meta[t] = {}
            order.append(t)
        meta[t][fn] = val
def resolve(t, fn):
    v = meta[t][fn]
    m = re.match(r'e\.(\w+)\.(\w+)\(\)', v)
    if m:
        # field type: look it up in the struct declaration
        fld = m.group(1)
        for f in files:
            src = open(f'{REPO}/{f}').read()
            mm = re.search(r'type %s struct \{([^}]*)\}' % t, src)
            if mm:
                for line in mm.group(1).split('\n'):
                    parts = line.split()
                    if len(parts) == 2 and parts[0] == fld:
                        return resolve(parts[1].lstrip('*'), fn)
        raise Exception('cannot resolve ' + t + '.' + fn)
    return v
GAS_CONST = {'cpctypes.GasVerifyEIP712': 200000}
def gasval(s):
    s = s.replace('_', '')
    tot = 0
    for part in s.split('+'):
        part = part.strip()
        tot += GAS_CONST[part] if part in GAS_CONST else int(part)
    return tot
for t in order:
    ro = resolve(t, 'ReadOnly')
    gas = gasval(resolve(t, 'RequireGas'))
    sig = meta[t]['Method4BytesSignatures']
    bs = [int(x, 16) for x in re.findall(r'0x([0-9a-fA-F]{2})', sig)]
    assert len(bs) == 4, (t, sig)
    assert ro in ('true', 'false')
    assert ro == 'true' or gas > 0
    w(f'//@ func (e {t}) ReadOnly() bool')
    w('//@   modifies nothing')
    w(f'//@   ensures[C12.read_only_flag] result == {ro}')
    w('//@   panics never')
    w(f'//@ func (e {t}) RequireGas() uint64')
    w('//@   modifies nothing')
    w(f'//@   ensures[C12.gas_constant] result == {gas}')
    w('//@   panics never')
    w(f'//@ func (e {t}) Method4BytesSignatures() []byte')
    w('//@   modifies nothing')
    w(f'//@   ensures[C12.selector] len(result) == 4 && result[0] == {bs[0]} && result[1] == {bs[1]} && result[2] == {bs[2]} && result[3] == {bs[3]}')
    w('//@   panics never')
    w()

w('''// the stub for methods that a protocol version does not support: read-only as configured; a non-read-only stub costs gas
//@ func (n notSupportedCustomPrecompiledContractMethodExecutor) ReadOnly() bool
//@   modifies nothing
//@   ensures[C12.read_only_flag] result == n.readOnly
//@   panics never
//@ func (n notSupportedCustomPrecompiledContractMethodExecutor) RequireGas() uint64
//@   modifies nothing
//@   ensures[C12.gas_constant] result == (n.readOnly ? 0 : 2) && (!n.readOnly ==> result > 0)
//@   panics never
//@ func (n notSupportedCustomPrecompiledContractMethodExecutor) Execute(caller corevm.ContractRef, contractAddress common.Address, input []byte, env cpcExecutorEnv) (ret []byte, err error)
//@   modifies nothing
//@   ensures[C12.stub_never_succeeds] err != nil
//@   panics never
''')

exec(open(os.path.join(HERE, 'gen_tail.py')).read())
exec(open(os.path.join(HERE, 'gen_tail2.py')).read())
exec(open(os.path.join(HERE, 'gen_tail3.py')).read())
# every VERIFIED contract is also checked for C01 (deterministic block execution): no node-local source is called, and
# every verified callee carries the same clause (assumed / pure summaries are exempt)
DET = '//@   deterministic[C01.no_node_local_source]'
# default: every verified contract (the engine checks a function that belongs to C01 only through this clause for the
# determinism obligations and covers only); CPC_DET=newevm: only the contracts NewEVM reaches
DET_ALL = os.environ.get('CPC_DET', '') != 'newevm'
DET_FUNCS = ['GetParams(', 'GetProtocolCpcVersion(', 'GetAllCustomPrecompiledContractsMeta(', 'GetAllCustomPrecompiledContracts(',
             'func NewCustomPrecompiledContract(', 'func NewErc20CustomPrecompiledContract(', 'func NewCustomPrecompiledContractMethod(',
             ') GetMetadata(', ') GetMethodExecutors(']
def add_det(text):
    lines = text.split('\n')
    res = []
    i = 0
    while i < len(lines):
        l = lines[i]
        if l.startswith('//@ func '):
            j = i + 1
            while j < len(lines) and (lines[j].startswith('//@   ') or lines[j].startswith('//@ loop')):
                j += 1
            block = lines[i:j]
            body = '\n'.join(block)
            if '//@   assumed' not in body and 'deterministic' not in body and (DET_ALL or any(x in l for x in DET_FUNCS)):
                res.append(l)
                res.append(DET)
                res.extend(block[1:])
            else:
                res.extend(block)
            i = j
        else:
            res.append(l)
            i += 1
    return '\n'.join(res)
open(f'{REPO}/x/cpc/keeper/verif_contracts.go', 'w').write(add_det('\n'.join(out)) + '\n')
print('executors:', len(order))
