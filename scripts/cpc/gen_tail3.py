# ---- helper "cpc2": C11 — the staking precompile acts only for its caller and submits exactly the native message ----------
# exec'd by gen_keeper.py after gen_tail2.py (shares the macros of gen_tail.py)
NATIVE = ['nativeCalls', 'nativeKind', 'nativeDelegator', 'nativeValidator', 'nativeValidatorSrc', 'nativeDenom', 'nativeAmount', 'nativeLayer', 'nativeSigChecks']
def NATIVEMOD(): return ', '.join(NATIVE)
def SDKMOD(ctx): return f'stakingVersion[layer({ctx})], distVersion[layer({ctx})], bankBal[layer({ctx})], authVersion[layer({ctx})], evlog[payload({ctx}.EventManager())]'
N0 = 'old(nativeCalls[0])'
def ONE_MORE(): return f'nativeCalls[0] == {N0} + 1'
def NONE_MORE(): return f'nativeCalls[0] == {N0}'
def LOG_SAME_BEFORE():
    # entries before the call's first new entry are untouched
    # one quantifier per log component (each gets its own trigger)
    return '(' + ' && '.join(f'(forall n int :: n < {N0} ==> {g}[n] == old({g}[n]))' for g in NATIVE[1:]) + ')'

w('''// ---------------------------------------------------------------------------------------------
// precompiles_staking.go — state-changing methods (C11). Ghost log of the native messages handed to the SDK message servers
// (prelude/4a_cpc2_native_staking.spec): nativeCalls[0] entries; entry n has a kind (1 Delegate, 2 Undelegate,
// 3 BeginRedelegate, 4 WithdrawDelegatorReward), delegator, validator(s), denomination, amount, store layer.
// For every state-changing executor: every native message submitted during the call carries the CALLER as delegator
// (bech32Bytes(delegator string) == the 20 bytes of caller.Address()), runs on the call's own store layer, and — for
// delegate / undelegate / redelegate / withdrawReward — is exactly ONE message with the validator(s) and amount of the call
// data, the bond denomination, and a positive amount; a non-positive amount fails before any native call.
// The SDK message servers are assumed (they ARE the native path); the log/event bridge (getSdkEventsFromEventManager,
// autoEmitEventsFromSdkEvents) is summarised as TRUSTED below: it reads the event manager and appends EVM logs, it submits
// no native message (event/log correspondence: not decided).
// ---------------------------------------------------------------------------------------------
//@ import stakingtypes "github.com/cosmos/cosmos-sdk/x/staking/types"
''')
SCT = 'stakingCustomPrecompiledContract'
w(f'//@ func (m {SCT}) getSdkEventsFromEventManager(em sdk.EventManagerI) []normalizedEvent')
w('//@   assumed')
w('//@   modifies nothing')
w('//@   panics any')
w(f'//@ func (m {SCT}) autoEmitEventsFromSdkEvents(em sdk.EventManagerI, originalEventCounts int, delegator sdk.AccAddress, env cpcExecutorEnv) (err error)')
w('//@   assumed')
w(f'//@   modifies {LOGMOD("env.evm.StateDB")}')
w('//@   panics any')
w()

# ---- the four native-message helpers ------------------------------------------------------------------------------
def helper(recv_t, name, sig, kind, deleg_is, val_is, extra=''):
    """contract of a helper that submits exactly one native message"""
    w(f'//@ func (e {recv_t}) {name}({sig}) (err error)')
    w('//@   requires e.contract != nil')
    w(f'//@   modifies {NATIVEMOD()}, {SDKMOD("ctx")}')
    w(f'//@   ensures[C11.{name}_at_most_one_message] ({NONE_MORE()} || {ONE_MORE()}) && {LOG_SAME_BEFORE()}')
    w(f'//@   ensures[C11.{name}_success_means_submitted] err == nil ==> {ONE_MORE()}')
    w(f'//@   ensures[C11.{name}_message] {ONE_MORE()} ==> (nativeKind[{N0}] == {kind} && {deleg_is} && {val_is}{extra} && nativeLayer[{N0}] == layer(ctx) && nativeSigChecks[{N0}] == sigChecks[0])')
    w()
COIN = f' && nativeDenom[{N0}] == amount.Denom && nativeAmount[{N0}] == iv(amount.Amount)'
helper('stakingCustomPrecompiledContractRwDelegate', 'delegate', 'ctx sdk.Context, delegator sdk.AccAddress, validator sdk.ValAddress, amount sdk.Coin', 1,
       f'((0 < len(delegator) && len(delegator) <= 255) ==> bech32Bytes(nativeDelegator[{N0}]) == bytes(delegator))', f'nativeValidator[{N0}] == codecStr(2, bytes(validator))', COIN)
helper('stakingCustomPrecompiledContractRwUnDelegate', 'undelegate', 'ctx sdk.Context, delegator sdk.AccAddress, validator sdk.ValAddress, amount sdk.Coin', 2,
       f'((0 < len(delegator) && len(delegator) <= 255) ==> bech32Bytes(nativeDelegator[{N0}]) == bytes(delegator))', f'nativeValidator[{N0}] == codecStr(2, bytes(validator))', COIN)
helper('stakingCustomPrecompiledContractRwReDelegate', 'redelegate', 'ctx sdk.Context, delegator sdk.AccAddress, srcVal, dstVal sdk.ValAddress, amount sdk.Coin', 3,
       f'((0 < len(delegator) && len(delegator) <= 255) ==> bech32Bytes(nativeDelegator[{N0}]) == bytes(delegator))', f'nativeValidatorSrc[{N0}] == codecStr(2, bytes(srcVal)) && nativeValidator[{N0}] == codecStr(2, bytes(dstVal))', COIN)
helper('stakingCustomPrecompiledContractRwWithdrawReward', 'withdrawRewardWithFormattedAddress', 'ctx sdk.Context, delegator, validator string', 4,
       f'nativeDelegator[{N0}] == delegator', f'nativeValidator[{N0}] == validator')
helper('stakingCustomPrecompiledContractRwWithdrawReward', 'withdrawReward', 'ctx sdk.Context, delegator sdk.AccAddress, validator sdk.ValAddress', 4,
       f'((0 < len(delegator) && len(delegator) <= 255) ==> bech32Bytes(nativeDelegator[{N0}]) == bytes(delegator))', f'nativeValidator[{N0}] == codecStr(2, bytes(validator))')

# ---- Execute of delegate / undelegate / redelegate / withdrawReward ----------------------------------------------------
CALLER = 'addrBytes(caller.Address())'
def ARGA(i): return f'abiArgAddr(bytes(input), {i})'
def ARGU(i): return f'abiArgUint(bytes(input), {i})'
def execute(t, cexpr, label, kind, val_is, amount_idx):
    L = 'layer(env.ctx)'
    w(f'//@ func (e {t}) Execute(caller corevm.ContractRef, contractAddr common.Address, input []byte, env cpcExecutorEnv) (ret []byte, err error)')
    w(f'//@   requires caller != nil && {cexpr} != nil && env.evm != nil && env.evm.StateDB != nil')
    w(f'//@   modifies {NATIVEMOD()}, {SDKMOD("env.ctx")}, {LOGMOD("env.evm.StateDB")}')
    w(f'//@   ensures[C11.{label}_at_most_one_message] ({NONE_MORE()} || {ONE_MORE()}) && {LOG_SAME_BEFORE()}')
    w(f'//@   ensures[C11.{label}_success_means_submitted] err == nil ==> {ONE_MORE()}')
    w(f'//@   ensures[C11.{label}_for_caller_only] {ONE_MORE()} ==> (bech32Bytes(nativeDelegator[{N0}]) == {CALLER} && nativeLayer[{N0}] == {L})')
    amt = ''
    if amount_idx is not None:
        amt = f' && nativeDenom[{N0}] == stakingBondDenom(old(stakingVersion[{L}])) && nativeAmount[{N0}] == {ARGU(amount_idx)} && nativeAmount[{N0}] > 0'
    w(f'//@   ensures[C11.{label}_message] {ONE_MORE()} ==> (nativeKind[{N0}] == {kind} && {val_is}{amt})')
    if amount_idx is not None:
        w(f'//@   ensures[C11.{label}_positive_amount_first] {ARGU(amount_idx)} <= 0 ==> (err != nil && {NONE_MORE()})')
    w()
execute('stakingCustomPrecompiledContractRwDelegate', 'e.contract', 'delegate_call', 1, f'nativeValidator[{N0}] == codecStr(2, addrBytes({ARGA(0)}))', 1)
execute('stakingCustomPrecompiledContractRwUnDelegate', 'e.contract', 'undelegate_call', 2, f'nativeValidator[{N0}] == codecStr(2, addrBytes({ARGA(0)}))', 1)
execute('stakingCustomPrecompiledContractRwReDelegate', 'e.contract', 'redelegate_call', 3, f'nativeValidatorSrc[{N0}] == codecStr(2, addrBytes({ARGA(0)})) && nativeValidator[{N0}] == codecStr(2, addrBytes({ARGA(1)}))', 2)
execute('stakingCustomPrecompiledContractRwWithdrawReward', 'e.contract', 'withdraw_reward_call', 4, f'nativeValidator[{N0}] == codecStr(2, addrBytes({ARGA(0)}))', None)

# ---- signed-message variants and withdrawRewards ------------------------------------------------------------------------
SIG = ['sigChecks', 'sigCheckExpected', 'sigCheckMsg', 'sigCheckChain', 'sigCheckOk']
NATIVE2 = NATIVE
def NEW_ENTRIES(body):
    return f'(forall n int :: ({N0} <= n && n < nativeCalls[0]) ==> ({body}))'
LOG_SAME2 = LOG_SAME_BEFORE()
S0 = 'old(sigChecks[0])'
# at the time native message n was submitted, the LATEST signature check had succeeded, for the caller's address, and it was
# made during this call
SIG_BEFORE = f'(nativeSigChecks[n] > {S0} && sigCheckOk[nativeSigChecks[n] - 1] && sigCheckExpected[nativeSigChecks[n] - 1] == caller.Address())'

w('''// withdrawRewards(delegator): queries the pending rewards, then submits one MsgWithdrawDelegatorReward per selected
// validator. Every message it submits is a reward withdrawal of THAT delegator on the call's layer.
// (Which validators are selected — those whose truncated bond-denom reward reaches the minimum — is not decided here.)''')
WR = 'stakingCustomPrecompiledContractRwWithdrawRewards'
w(f'//@ func (e {WR}) withdrawRewards(ctx sdk.Context, delegator sdk.AccAddress) (any bool, err error)')
w('//@   requires e.withdrawReward.contract != nil')
w(f'//@   modifies {", ".join(NATIVE2)}, {SDKMOD("ctx")}, e.withdrawReward.contract.cacheStakingMetadata')
w(f'//@   ensures[C11.withdraw_rewards_only_grows] nativeCalls[0] >= {N0} && {LOG_SAME2}')
w(f'//@   ensures[C11.withdraw_rewards_for_delegator_only] {NEW_ENTRIES(f"nativeKind[n] == 4 && ((0 < len(delegator) && len(delegator) <= 255) ==> bech32Bytes(nativeDelegator[n]) == bytes(delegator)) && nativeLayer[n] == layer(ctx) && nativeSigChecks[n] == sigChecks[0]")}')
w('//@ loop 2')
w(f'//@   modifies {", ".join(NATIVE2)}, {SDKMOD("ctx")}')
w(f'//@   invariant nativeCalls[0] >= {N0} && sigChecks[0] == old(sigChecks[0]) && ((0 < len(delegator) && len(delegator) <= 255) ==> bech32Bytes(delegatorAddrStr) == bytes(delegator)) && {LOG_SAME2}')
w(f'//@   invariant {NEW_ENTRIES(f"nativeKind[n] == 4 && nativeDelegator[n] == delegatorAddrStr && nativeLayer[n] == layer(ctx) && nativeSigChecks[n] == sigChecks[0]")}')
w()
w(f'//@ func (e {WR}) Execute(caller corevm.ContractRef, contractAddr common.Address, input []byte, env cpcExecutorEnv) (ret []byte, err error)')
w('//@   requires caller != nil && e.withdrawReward.contract != nil && env.evm != nil && env.evm.StateDB != nil')
w(f'//@   modifies {", ".join(NATIVE2)}, {SDKMOD("env.ctx")}, {LOGMOD("env.evm.StateDB")}, e.withdrawReward.contract.cacheStakingMetadata')
w(f'//@   ensures[C11.withdraw_rewards_call_only_grows] nativeCalls[0] >= {N0} && {LOG_SAME2}')
w(f'//@   ensures[C11.withdraw_rewards_call_for_caller_only] {NEW_ENTRIES(f"nativeKind[n] == 4 && bech32Bytes(nativeDelegator[n]) == {CALLER} && nativeLayer[n] == layer(env.ctx)")}')
w()

w('''// delegateByActionMessage(message, r, s, v): the signed staking message. No native message is submitted unless the message's
// delegator IS the caller and an EIP-712 signature check for the caller's address (VerifySignature(caller, message, r, s, v,
// chain id of the EVM)) has succeeded BEFORE it; at most one native message; it carries the caller as delegator and a
// positive amount.''')
BA = 'stakingCustomPrecompiledContractRwDelegateByActionMessage'
w(f'//@ func (e {BA}) Execute(caller corevm.ContractRef, contractAddr common.Address, input []byte, env cpcExecutorEnv) (ret []byte, err error)')
w('//@   requires caller != nil && e.delegate.contract != nil && e.undelegate.contract != nil && e.redelegate.contract != nil && env.evm != nil && env.evm.StateDB != nil')
w(f'//@   modifies {", ".join(NATIVE2)}, {", ".join(SIG)}, {SDKMOD("env.ctx")}, {LOGMOD("env.evm.StateDB")}')
w(f'//@   ensures[C11.signed_staking_at_most_one_message] ({NONE_MORE()} || {ONE_MORE()}) && {LOG_SAME2}')
w(f'//@   ensures[C11.signed_staking_for_caller_only] {NEW_ENTRIES(f"bech32Bytes(nativeDelegator[n]) == {CALLER} && nativeLayer[n] == layer(env.ctx) && 1 <= nativeKind[n] && nativeKind[n] <= 3 && nativeAmount[n] > 0")}')
w(f'//@   ensures[C11.signed_staking_verified_before_native] {NEW_ENTRIES(SIG_BEFORE)}')
w(f'//@   ensures[C11.signed_staking_chain_bound] {NEW_ENTRIES("sigCheckChain[nativeSigChecks[n] - 1] == env.evm.ChainConfig().ChainID")}')
w()
w('''// withdrawRewardsByMessage(message, r, s, v): the signed withdrawal message; same rule.''')
WM = 'stakingCustomPrecompiledContractRwWithdrawRewardsByMessage'
w(f'//@ func (e {WM}) Execute(caller corevm.ContractRef, contractAddr common.Address, input []byte, env cpcExecutorEnv) (ret []byte, err error)')
w('//@   requires caller != nil && e.withdrawReward.contract != nil && e.withdrawRewards.withdrawReward.contract != nil && env.evm != nil && env.evm.StateDB != nil')
w(f'//@   modifies {", ".join(NATIVE2)}, {", ".join(SIG)}, {SDKMOD("env.ctx")}, {LOGMOD("env.evm.StateDB")}, e.withdrawRewards.withdrawReward.contract.cacheStakingMetadata')
w(f'//@   ensures[C11.signed_withdraw_only_grows] nativeCalls[0] >= {N0} && {LOG_SAME2}')
w(f'//@   ensures[C11.signed_withdraw_for_caller_only] {NEW_ENTRIES(f"nativeKind[n] == 4 && bech32Bytes(nativeDelegator[n]) == {CALLER} && nativeLayer[n] == layer(env.ctx)")}')
w(f'//@   ensures[C11.signed_withdraw_verified_before_native] {NEW_ENTRIES(SIG_BEFORE)}')
w(f'//@   ensures[C11.signed_withdraw_chain_bound] {NEW_ENTRIES("sigCheckChain[nativeSigChecks[n] - 1] == env.evm.ChainConfig().ChainID")}')
w()
