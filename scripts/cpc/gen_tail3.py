# ---- helper "cpc2": C11 — the staking precompile acts only for its caller and submits exactly the native message ----------
# exec'd by gen_keeper.py after gen_tail2.py (shares the macros of gen_tail.py)
NATIVE = ['nativeCalls', 'nativeKind', 'nativeDelegator', 'nativeValidator', 'nativeValidatorSrc', 'nativeDenom', 'nativeAmount', 'nativeLayer']
def NATIVEMOD(): return ', '.join(NATIVE)
def SDKMOD(ctx): return f'stakingVersion[layer({ctx})], distVersion[layer({ctx})], bankBal[layer({ctx})], authVersion[layer({ctx})], evlog[payload({ctx}.EventManager())]'
N0 = 'old(nativeCalls[0])'
def ONE_MORE(): return f'nativeCalls[0] == {N0} + 1'
def NONE_MORE(): return f'nativeCalls[0] == {N0}'
def LOG_SAME_BEFORE():
    # entries before the call's first new entry are untouched
    return '(forall n int :: (0 <= n && n < ' + N0 + ') ==> (' + ' && '.join(f'{g}[n] == old({g}[n])' for g in NATIVE[1:]) + '))'

w('''// ---------------------------------------------------------------------------------------------
// precompiles_staking.go — state-changing methods (C11). Ghost log of the native messages handed to the SDK message servers
// (prelude/4a_cpc2_native_staking.spec): nativeCalls[0] entries; entry n has a kind (1 Delegate, 2 Undelegate,
// 3 BeginRedelegate, 4 WithdrawDelegatorReward), delegator, validator(s), denomination, amount, store layer.
// For every state-changing executor: every native message submitted during the call carries the CALLER as delegator
// (bech32Bytes(delegator string) == the 20 bytes of caller.Address()), runs on the call's own store layer, and — for
// delegate / undelegate / redelegate / withdrawReward — is exactly ONE message with the validator(s) and amount of the call
// data, the bond denomination, and a positive amount; a non-positive amount fails before any native call.
// The SDK message servers are assumed (they ARE the native path); the log/event bridge (getSdkEventsFromEventManager,
// autoEmitEventsFromSdkEvents) is summarised as TRUSTED below: it reads the event manager and appends EVM logs, it submits
// no native message (event/log correspondence: not decided).
// ---------------------------------------------------------------------------------------------
//@ import stakingtypes "github.com/cosmos/cosmos-sdk/x/staking/types"
''')
SCT = 'stakingCustomPrecompiledContract'
w(f'//@ func (m {SCT}) getSdkEventsFromEventManager(em sdk.EventManagerI) []normalizedEvent')
w('//@   assumed')
w('//@   modifies nothing')
w('//@   panics any')
w(f'//@ func (m {SCT}) autoEmitEventsFromSdkEvents(em sdk.EventManagerI, originalEventCounts int, delegator sdk.AccAddress, env cpcExecutorEnv) (err error)')
w('//@   assumed')
w(f'//@   modifies {LOGMOD("env.evm.StateDB")}')
w('//@   panics any')
w()

# ---- the four native-message helpers ------------------------------------------------------------------------------
def helper(recv_t, name, sig, kind, deleg_is, val_is, extra=''):
    """contract of a helper that submits exactly one native message"""
    w(f'//@ func (e {recv_t}) {name}({sig}) (err error)')
    w('//@   requires e.contract != nil')
    w(f'//@   modifies {NATIVEMOD()}, {SDKMOD("ctx")}')
    w(f'//@   ensures[C11.{name}_at_most_one_message] ({NONE_MORE()} || {ONE_MORE()}) && {LOG_SAME_BEFORE()}')
    w(f'//@   ensures[C11.{name}_success_means_submitted] err == nil ==> {ONE_MORE()}')
    w(f'//@   ensures[C11.{name}_message] {ONE_MORE()} ==> (nativeKind[{N0}] == {kind} && {deleg_is} && {val_is}{extra} && nativeLayer[{N0}] == layer(ctx))')
    w()
COIN = f' && nativeDenom[{N0}] == amount.Denom && nativeAmount[{N0}] == iv(amount.Amount)'
helper('stakingCustomPrecompiledContractRwDelegate', 'delegate', 'ctx sdk.Context, delegator sdk.AccAddress, validator sdk.ValAddress, amount sdk.Coin', 1,
       f'bech32Bytes(nativeDelegator[{N0}]) == bytes(delegator)', f'nativeValidator[{N0}] == codecStr(2, bytes(validator))', COIN)
helper('stakingCustomPrecompiledContractRwUnDelegate', 'undelegate', 'ctx sdk.Context, delegator sdk.AccAddress, validator sdk.ValAddress, amount sdk.Coin', 2,
       f'bech32Bytes(nativeDelegator[{N0}]) == bytes(delegator)', f'nativeValidator[{N0}] == codecStr(2, bytes(validator))', COIN)
helper('stakingCustomPrecompiledContractRwReDelegate', 'redelegate', 'ctx sdk.Context, delegator sdk.AccAddress, srcVal, dstVal sdk.ValAddress, amount sdk.Coin', 3,
       f'bech32Bytes(nativeDelegator[{N0}]) == bytes(delegator)', f'nativeValidatorSrc[{N0}] == codecStr(2, bytes(srcVal)) && nativeValidator[{N0}] == codecStr(2, bytes(dstVal))', COIN)
helper('stakingCustomPrecompiledContractRwWithdrawReward', 'withdrawRewardWithFormattedAddress', 'ctx sdk.Context, delegator, validator string', 4,
       f'nativeDelegator[{N0}] == delegator', f'nativeValidator[{N0}] == validator')
helper('stakingCustomPrecompiledContractRwWithdrawReward', 'withdrawReward', 'ctx sdk.Context, delegator sdk.AccAddress, validator sdk.ValAddress', 4,
       f'bech32Bytes(nativeDelegator[{N0}]) == bytes(delegator)', f'nativeValidator[{N0}] == codecStr(2, bytes(validator))')

# ---- Execute of delegate / undelegate / redelegate / withdrawReward ----------------------------------------------------
CALLER = 'addrBytes(caller.Address())'
def ARGA(i): return f'abiArgAddr(bytes(input), {i})'
def ARGU(i): return f'abiArgUint(bytes(input), {i})'
def execute(t, cexpr, label, kind, val_is, amount_idx):
    L = 'layer(env.ctx)'
    w(f'//@ func (e {t}) Execute(caller corevm.ContractRef, contractAddr common.Address, input []byte, env cpcExecutorEnv) (ret []byte, err error)')
    w(f'//@   requires caller != nil && {cexpr} != nil && env.evm != nil && env.evm.StateDB != nil')
    w(f'//@   modifies {NATIVEMOD()}, {SDKMOD("env.ctx")}, {LOGMOD("env.evm.StateDB")}')
    w(f'//@   ensures[C11.{label}_at_most_one_message] ({NONE_MORE()} || {ONE_MORE()}) && {LOG_SAME_BEFORE()}')
    w(f'//@   ensures[C11.{label}_success_means_submitted] err == nil ==> {ONE_MORE()}')
    w(f'//@   ensures[C11.{label}_for_caller_only] {ONE_MORE()} ==> (bech32Bytes(nativeDelegator[{N0}]) == {CALLER} && nativeLayer[{N0}] == {L})')
    amt = ''
    if amount_idx is not None:
        amt = f' && nativeDenom[{N0}] == stakingBondDenom(old(stakingVersion[{L}])) && nativeAmount[{N0}] == {ARGU(amount_idx)} && nativeAmount[{N0}] > 0'
    w(f'//@   ensures[C11.{label}_message] {ONE_MORE()} ==> (nativeKind[{N0}] == {kind} && {val_is}{amt})')
    if amount_idx is not None:
        w(f'//@   ensures[C11.{label}_positive_amount_first] {ARGU(amount_idx)} <= 0 ==> (err != nil && {NONE_MORE()})')
    w()
execute('stakingCustomPrecompiledContractRwDelegate', 'e.contract', 'delegate_call', 1, f'nativeValidator[{N0}] == codecStr(2, addrBytes({ARGA(0)}))', 1)
execute('stakingCustomPrecompiledContractRwUnDelegate', 'e.contract', 'undelegate_call', 2, f'nativeValidator[{N0}] == codecStr(2, addrBytes({ARGA(0)}))', 1)
execute('stakingCustomPrecompiledContractRwReDelegate', 'e.contract', 'redelegate_call', 3, f'nativeValidatorSrc[{N0}] == codecStr(2, addrBytes({ARGA(0)})) && nativeValidator[{N0}] == codecStr(2, addrBytes({ARGA(1)}))', 2)
execute('stakingCustomPrecompiledContractRwWithdrawReward', 'e.contract', 'withdraw_reward_call', 4, f'nativeValidator[{N0}] == codecStr(2, addrBytes({ARGA(0)}))', None)
