#!/usr/bin/env python3
"""mkmut.py <name> <repo-relative file> <old> <new>  -> selftest/mutants/<name>.patch (unified diff against /repo working tree)"""
import sys, difflib, os
name, rel, old, new = sys.argv[1:5]
repo = os.environ.get('VERIF_REPO', '/repo')
src = open(os.path.join(repo, rel)).read()
assert src.count(old) == 1, f"pattern occurs {src.count(old)} times"
dst = src.replace(old, new)
d = difflib.unified_diff(src.splitlines(True), dst.splitlines(True), 'a/' + rel, 'b/' + rel)
root = os.path.dirname(os.path.dirname(os.path.abspath(__file__))) if False else os.environ.get('VERIF_ROOT', '/verif')
open(os.path.join(root, 'selftest', 'mutants', name + '.patch'), 'w').write(''.join(d))
print('wrote', name)
