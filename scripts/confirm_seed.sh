#!/bin/sh
# usage: scripts/confirm_seed.sh <dir with patch.diff + zz_seeded_demo_test.go> <package dir of the demo> [test packages...]
# Confirms in a scratch worktree: builds with the patch, listed package tests pass with the patch, demo fails with / passes without.
export GOFLAGS=-mod=mod GOPROXY=off GOSUMDB=off GOTOOLCHAIN=local
D=$(readlink -f "$1"); PKG=$2; shift 2
WT=$(mktemp -d /tmp/confirm-XXXXXX); rmdir "$WT"
git -C /repo worktree add -q --detach "$WT" HEAD || exit 2
trap 'git -C /repo worktree remove --force "$WT"' EXIT
cd "$WT"
cp "$D/zz_seeded_demo_test.go" "$PKG/"
echo "== demo WITHOUT the change (must pass)"
go test -vet=off -count=1 -timeout 20m -run '^TestSeededDemo$' "./$PKG" 2>&1 | tail -3
git apply "$D/patch.diff" || exit 2
echo "== build with the change"
go build ./... && echo build-ok
echo "== demo WITH the change (must fail)"
go test -vet=off -count=1 -timeout 20m -run '^TestSeededDemo$' "./$PKG" 2>&1 | tail -3
rm "$PKG/zz_seeded_demo_test.go"
echo "== existing tests with the change: $@"
go test -vet=off -count=1 -timeout 40m "$@" 2>&1 | grep -v "no test files" | tail -40
