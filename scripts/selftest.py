#!/usr/bin/env python3
"""Must-fail corpus: every patch in selftest/mutants (and seeded/*/patch.diff listed in selftest/expected.json) is applied
IN MEMORY and the property check must report a violation whose replay name matches the expected obligation regexp.
usage: scripts/selftest.py [name-substring]"""
import json, os, re, subprocess, sys, concurrent.futures
root = os.path.dirname(os.path.dirname(os.path.abspath(__file__)))
exp = json.load(open(os.path.join(root, 'selftest', 'expected.json')))
import glob
for f in sorted(glob.glob(os.path.join(root, 'selftest', 'expected.d', '*.json'))):
    exp.update(json.load(open(f)))
flt = sys.argv[1] if len(sys.argv) > 1 else ''
def run(item):
    name, spec = item
    patch = os.path.join(root, spec.get('patch', os.path.join('selftest', 'mutants', name + '.patch')))
    p = subprocess.run([os.path.join(root, 'scripts', 'mutant.sh'), patch, spec['property']], capture_output=True, text=True)
    viols = re.findall(r'VIOLATION property=\S+ replay=\S*/([^/\s]+)\.json', p.stdout)
    ok = p.returncode == 1 and any(re.search(spec['must_fail'], v) for v in viols)
    return name, ok, viols, p.returncode
items = [(k, v) for k, v in sorted(exp.items()) if flt in k]
# SELFTEST_DONE=<log of an earlier run>: skip the mutants it already lists; SELFTEST_STRIDE=n: every n-th of the rest
done = set()
if os.environ.get('SELFTEST_DONE'):
    for l in open(os.environ['SELFTEST_DONE']):
        f = l.split()
        if len(f) >= 2 and f[0] in ('KILLED', 'SURVIVED'):
            done.add(f[1])
items = [it for it in items if it[0] not in done]
stride = int(os.environ.get('SELFTEST_STRIDE', '1'))
items = items[::stride]
bad = 0
with concurrent.futures.ThreadPoolExecutor(max_workers=int(os.environ.get("SELFTEST_WORKERS", "2"))) as ex:
    for name, ok, viols, rc in ex.map(run, items):
        print(('KILLED  ' if ok else 'SURVIVED'), name, '->', viols[:3] if viols else 'exit %d, no violation' % rc, flush=True)
        bad += 0 if ok else 1
print(f'{len(items)-bad}/{len(items)} mutants killed')
sys.exit(1 if bad else 0)
