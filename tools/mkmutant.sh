#!/bin/sh
# usage: mkmutant.sh <name> <file relative to repo> <python-expr old> <new>   (exact string replacement, first occurrence)
# writes selftest/mutants/<name>.patch
set -e
NAME=$1; F=$2; OLD=$3; NEW=$4
R=/tmp/w/ante/repo; T=$(mktemp -d)
mkdir -p $T/a/$(dirname $F) $T/b/$(dirname $F)
cp $R/$F $T/a/$F
python3 - "$R/$F" "$T/b/$F" "$OLD" "$NEW" <<'PY'
import sys
s=open(sys.argv[1]).read()
old,new=sys.argv[3],sys.argv[4]
assert s.count(old)>=1, "pattern not found: "+old
open(sys.argv[2],'w').write(s.replace(old,new,1))
PY
(cd $T && diff -u a/$F b/$F | sed -E "s/^(---|\+\+\+) ([^\t]+)\t.*/\1 \2/" > /tmp/w/ante/verif/selftest/mutants/$NAME.patch || true)
rm -rf $T
echo "wrote $NAME.patch"
