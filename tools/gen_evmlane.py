#!/usr/bin/env python3
# Generates app/antedl/evmlane/verif_contracts.go (same clause macros as gen_duallane.py)
K = 'old(hcN[0])'
def RES(): return f'newCtx == hcResCtx[{K}] && typeof(err) == hcResErrTag[{K}] && payload(err) == hcResErr[{K}]'
def ARGS(ctx='ctx'): return f'hcCtx[{K}] == {ctx} && hcTxTag[{K}] == typeof(tx) && hcTx[{K}] == payload(tx) && hcSim[{K}] == simulate'
NOEFF = f'hcSawFlagNonce[{K}] == old(trFlagNonce[layer(ctx)]) && hcSawFlagPaid[{K}] == old(trFlagPaid[layer(ctx)]) && hcSawSeq[{K}] == old(acctSeq[layer(ctx)])'
def NEXTC(ctx='ctx', noeff=True):
    a = ARGS(ctx) if ctx else f'hcTxTag[{K}] == typeof(tx) && hcTx[{K}] == payload(tx) && hcSim[{K}] == simulate'
    return f'hcN[0] == {K} + 1 && hcKind[{K}] == 0 && hcCallee[{K}] == next && {a} && {RES()}' + (f' && {NOEFF}' if (noeff and ctx) else '')
REJ = f'hcN[0] == {K} && err != nil && newCtx == ctx'
S = 'single(payload(tx))'
SIG = '(ctx sdk.Context, tx sdk.Tx, simulate bool, next sdk.AnteHandler) (newCtx sdk.Context, err error)'
REQTX = '//@   requires tx != nil && txUnpacked(payload(tx))'
def PAN(extra=''):
    return '//@   panics[C20.own_code_panics] only_if hcPanics[hcN[0]]' + extra
FROM = 'bech32Bytes(ethMsgOf(payload(tx)).From)'
B = 'bytes(ethMsgOf(payload(tx)).MarshalledTx)'
out = f'''//go:build verif

// Contracts for the deductive verifier in /verif (govc). This file contains no code: with the
// build tag off it is not part of the package, with it on it adds nothing to the build.
// Vocabulary: see app/antedl/duallane/verif_contracts.go. (Generated text; what is here is what is checked.)
package evmlane

//@ import sdk "github.com/cosmos/cosmos-sdk/types"

// 03e: EVM-lane only. Cosmos lane: straight to the continuation, nothing touched. Ethereum lane: continues only for a
// non-empty sender address whose account has no contract code (an externally owned account).
//@ func (ead ELValidateBasicEoaDecorator) AnteHandle{SIG}
{REQTX}
//@   modifies everything
// own panics: msg.From is not bech32 (excluded by 03: msg.ValidateBasic)
{PAN(f' || ({S} && !bech32Valid(ethMsgOf(payload(tx)).From))')}
//@   ensures[C07.cosmos_passes] !{S} ==> ({NEXTC()})
//@   ensures[C07.eth_next_or_reject] {S} ==> (({NEXTC()}) || ({REJ}))
//@   ensures[C06.sender_is_eoa] ({S} && hcN[0] == {K} + 1) ==> old(isEmptyCodeHash(evmCodeHash[layer(ctx)][{FROM}]))

// 991e: EVM-lane only. Cosmos lane: straight to the continuation with the same context. Ethereum lane: the continuation runs
// on the context prepared by Keeper.SetupExecutionContext (x/evm/keeper/verif_contracts_ante.go) — same store layer, event manager
// and header — and sees the tx counter advanced by one, the tx's whole gas limit recorded as its gas used and a placeholder receipt
// stored under the new index, so that every counted tx has a receipt (receipts stay dense).
//@ func (sed ELSetupExecutionDecorator) AnteHandle{SIG}
{REQTX}
//@   modifies everything
{PAN()}
//@   requires {S} ==> (trCount[layer(ctx)] + 1 < pow2(64) && txDecodable({B}) && decType({B}) <= 2)
//@   ensures[C07.cosmos_passes] !{S} ==> ({NEXTC()})
//@   ensures[C07.eth_continues,C13.eth_continues] {S} ==> ({NEXTC(None)} && layer(hcCtx[{K}]) == layer(ctx) && hdr(hcCtx[{K}]) == hdr(ctx) && mode(hcCtx[{K}]) == mode(ctx))
//@   ensures[C13.eth_counter_and_gas,C05.eth_counter_and_gas] {S} ==> (hcSawTrCount[{K}] == old(trCount[layer(ctx)]) + 1 && hcSawTrGas[{K}] == old(trGas[layer(ctx)][trCount[layer(ctx)] := decGas({B})]) && hcSawHasReceipt[{K}] == old(trHasReceipt[layer(ctx)][trCount[layer(ctx)] := true]))
//@   ensures[C13.eth_receipts_dense] ({S} && (forall i int :: (0 <= i && i < old(trCount[layer(ctx)])) ==> old(trHasReceipt[layer(ctx)][i]))) ==> (forall i int :: (0 <= i && i < hcSawTrCount[{K}]) ==> hcSawHasReceipt[{K}][i])
//@   ensures[C13.eth_flags_untouched] {S} ==> ({NOEFF})

// 992e: EVM-lane only. Cosmos lane: straight to the continuation, no event. Ethereum lane: exactly one event is emitted, on the
// event manager of ctx, before the continuation runs: type ethereum_tx, carrying the hash of the embedded transaction and its index
// in the block = (tx counter - 1), the same index under which 991e stored the placeholder receipt (arg1: the event handed to EmitEvent).
//@ import evmtypes "github.com/EscanBE/evermint/v12/x/evm/types"
//@ import strconv "strconv"
//@ func (eed ELEmitEventDecorator) AnteHandle{SIG}
{REQTX}
//@   modifies everything
// own panics: the embedded bytes do not decode (excluded by 03)
{PAN(f' || ({S} && !txDecodable({B}))')}
//@   ensures[C07.cosmos_passes] !{S} ==> ({NEXTC()})
//@   ensures[C07.eth_continues,C13.eth_continues] {S} ==> ({NEXTC()})
//@   at call types.EventManagerI.EmitEvent@1 assert[C13.ante_event_on_ctx_manager] recv == ctx.EventManager() && single(payload(tx))
//@   at call types.EventManagerI.EmitEvent@1 assert[C13.ante_event_shape] arg1.Type == evmtypes.EventTypeEthereumTx && len(arg1.Attributes) == 2 && arg1.Attributes[0].Key == evmtypes.AttributeKeyEthereumTxHash && arg1.Attributes[1].Key == evmtypes.AttributeKeyTxIndex
//@   at call types.EventManagerI.EmitEvent@1 assert[C13.ante_event_tx_index] arg1.Attributes[1].Value == strconv.FormatUint(max(1, trCount[layer(ctx)]) - 1, 10)
//@   at call types.EventManagerI.EmitEvent@1 assert[C13.ante_event_tx_hash] arg1.Attributes[0].Value == decHash({B}).Hex()

// 993e: the trial execution runs only for an Ethereum-lane tx in CheckTx / ReCheckTx / simulation; in every other case the
// decorator goes straight to the continuation and touches nothing. The trial itself runs on a CacheContext branch whose write
// function is dropped: when the continuation is called, every layered component of the world seen through ctx (balances, supply,
// accounts, x/evm and fee-market params, per-block bookkeeping, flags: prelude/40_statedb_context.spec) and ctx's event list are what
// they were on entry (C08: the trial execution is side-effect free).
// requires: the stored fee-market params are valid (x/feemarket SetParams: base fee present), as for the fee checkers.
//@ func (ed ELExecWithoutErrorDecorator) AnteHandle{SIG}
//@   requires !fmBaseFeeNil[layer(ctx)]
// (the x/evm keeper is wired: its precompile keeper has a store key and a codec — precondition of Keeper.NewEVM)
//@   requires ed.ek.cpcKeeper.storeKey != nil && ed.ek.cpcKeeper.cdc != nil
{REQTX}
//@   modifies everything
// (no C20 clause: Keeper.NewEVM — verified for C17 — is specified `panics any`; the trial path's other panic sites are the explicit
// panic(err) after AsMessage and nil accounts, all excluded by 03 / 07 / 11 / 12)
//@   ensures[C07.cosmos_passes,C08.cosmos_passes] !{S} ==> ({NEXTC()})
//@   ensures[C07.deliver_passes,C08.deliver_passes] (!ctx.IsCheckTx() && !ctx.IsReCheckTx() && !simulate) ==> ({NEXTC()})
//@   ensures[C08.trial_next_or_reject] (({NEXTC(None)} && hcCtx[{K}] == ctx) || ({REJ}))
//@   at call dyncall@1 assert[C08.view_unchanged_at_next] viewEqOld(layer(ctx), layer(ctx))
//@   at call dyncall@2 assert[C08.view_unchanged_at_next] viewEqOld(layer(ctx), layer(ctx))
//@   at call dyncall@3 assert[C08.view_unchanged_at_next_after_trial] viewEqOld(layer(ctx), layer(ctx)) && evlog[payload(ctx.EventManager())] == old(evlog[payload(ctx.EventManager())])
//@   ensures[C08.trial_world_unchanged] hcN[0] == {K} + 1 ==> ({NOEFF} && hcSawTrCount[{K}] == old(trCount[layer(ctx)]) && hcSawTrGas[{K}] == old(trGas[layer(ctx)]) && hcSawHasReceipt[{K}] == old(trHasReceipt[layer(ctx)]))
'''
open('/tmp/w/ante/repo/app/antedl/evmlane/verif_contracts.go','w').write(out)
