#!/usr/bin/env python3
# Generates app/antedl/evmlane/verif_contracts.go (same clause macros as gen_duallane.py)
K = 'old(hcN[0])'
def RES(): return f'newCtx == hcResCtx[{K}] && typeof(err) == hcResErrTag[{K}] && payload(err) == hcResErr[{K}]'
def ARGS(ctx='ctx'): return f'hcCtx[{K}] == {ctx} && hcTxTag[{K}] == typeof(tx) && hcTx[{K}] == payload(tx) && hcSim[{K}] == simulate'
NOEFF = f'hcSawFlagNonce[{K}] == old(trFlagNonce[layer(ctx)]) && hcSawFlagPaid[{K}] == old(trFlagPaid[layer(ctx)]) && hcSawSeq[{K}] == old(acctSeq[layer(ctx)])'
def NEXTC(ctx='ctx', noeff=True):
    a = ARGS(ctx) if ctx else f'hcTxTag[{K}] == typeof(tx) && hcTx[{K}] == payload(tx) && hcSim[{K}] == simulate'
    return f'hcN[0] == {K} + 1 && hcKind[{K}] == 0 && hcCallee[{K}] == next && {a} && {RES()}' + (f' && {NOEFF}' if (noeff and ctx) else '')
REJ = f'hcN[0] == {K} && err != nil && newCtx == ctx'
S = 'single(payload(tx))'
SIG = '(ctx sdk.Context, tx sdk.Tx, simulate bool, next sdk.AnteHandler) (newCtx sdk.Context, err error)'
FROM = 'bech32Bytes(ethMsgOf(payload(tx)).From)'
out = f'''//go:build verif

// Contracts for the deductive verifier in /verif (govc). This file contains no code: with the
// build tag off it is not part of the package, with it on it adds nothing to the build.
// Vocabulary: see app/antedl/duallane/verif_contracts.go. (Generated text; what is here is what is checked.)
package evmlane

//@ import sdk "github.com/cosmos/cosmos-sdk/types"

// 03e: EVM-lane only. Cosmos lane: straight to the continuation, nothing touched. Ethereum lane: continues only for a
// non-empty sender address whose account has no contract code (an externally owned account).
//@ func (ead ELValidateBasicEoaDecorator) AnteHandle{SIG}
//@   modifies everything
//@   ensures[C07.cosmos_passes] !{S} ==> ({NEXTC()})
//@   ensures[C07.eth_next_or_reject] {S} ==> (({NEXTC()}) || ({REJ}))
//@   ensures[C06.sender_is_eoa] ({S} && hcN[0] == {K} + 1) ==> old(isEmptyCodeHash(evmCodeHash[layer(ctx)][{FROM}]))

// 991e: EVM-lane only. Cosmos lane: straight to the continuation with the same context. (The Ethereum-lane half is
// Keeper.SetupExecutionContext, which belongs to the x/evm keeper contracts (C05/C13) and is not summarised here.)
//@ func (sed ELSetupExecutionDecorator) AnteHandle{SIG}
//@   modifies everything
//@   ensures[C07.cosmos_passes] !{S} ==> ({NEXTC()})

// 992e: EVM-lane only. Cosmos lane: straight to the continuation, no event.
//@ func (eed ELEmitEventDecorator) AnteHandle{SIG}
//@   modifies everything
//@   ensures[C07.cosmos_passes] !{S} ==> ({NEXTC()})
//@   ensures[C07.eth_continues] {S} ==> ({NEXTC()})

// 993e (ELExecWithoutErrorDecorator) is NOT under contract here: `&ed.ek` (an interior pointer) is converted to the EvmKeeper
// interface for NewStateDB, which the verifier's memory model does not support, and the trial execution needs the state
// transition preconditions of x/evm/keeper (C08 territory). Its lane guard is the same two lines as in the decorators above.
'''
open('/tmp/w/ante/repo/app/antedl/evmlane/verif_contracts.go','w').write(out)
